"""C17: allocation failure is reported as YAEP_NO_MEMORY, never a crash (fault enumeration)."""
import random
from . import core, sem, gen, build, run, desc
from .gram import G, hx, emit_define, emit_tokens, emit_config

ETF = G("E : T # 0 | E '+' T # plus (0 2) ; T : F # 0 | T '*' F # mult (0 2) ; F : a # 0 | '(' E ')' # 1 | '(' error ')' # err")
AMB = G("E : E '+' E # add 1 (0 2) | E '*' E # mul 2 (0 2) | a # 0")
LIST = G("L : L a # cons (0 1) | a # 0 | # e")
BAD = G("S : A a # 0 ; A : A # 0 | b")
ETF_TEXT = "TERM a = 97;\nE : T # 0 | E '+' T # plus (0 2) ;\nT : F # 0 | T '*' F # mult (0 2);\nF : a # 0 | '(' E ')' # 1 | '(' error ')' # err 1 ()\n ;\n"
BAD_TEXT = "TERM a;\nE : a ( ;\n"


def codes(g, s):
    c = g.code_of()
    return [c[t] for t in s.split()]


def corpus(tier="quick"):
    """list of (name, steps under test [scenario lines], uses slot 0)"""
    C = []
    if tier == "thorough":
        from . import ansic
        a = ansic.ensure()
        toks = [int(x) for x in open(a["toks"]["test.i"]).read().split()[:1500]]
        C.append(("define_ansic_description", ["new 0", "desc 0 1 " + hx(a["text"])]))
        C.append(("parse_ansic_1500_tokens_norecovery", ["new 0", "set 0 rec 0", "desc 0 1 " + hx(a["text"])] + emit_tokens(toks) + ["parse 0 2 n"]))
    C.append(("create", ["new 0"]))
    C.append(("define_callbacks_etf", ["new 0"] + emit_define(ETF, 0, 1)))
    C.append(("define_callbacks_list_nonstrict", ["new 0"] + emit_define(LIST, 0, 0)))
    C.append(("define_defective_loop", ["new 0"] + emit_define(BAD, 0, 1)))
    C.append(("define_description", ["new 0", "desc 0 1 " + hx(ETF_TEXT)]))
    C.append(("define_description_syntax_error", ["new 0", "desc 0 1 " + hx(BAD_TEXT)]))
    C.append(("redefine", ["new 0"] + emit_define(LIST, 0, 0) + emit_define(ETF, 0, 1)))
    # the object under test is not the one the library touched last: another one was created after it and is
    # alive, or already freed, when the faulted call starts
    C.append(("description_after_other_object_alive", ["new 0", "new 2", "desc 0 1 " + hx(ETF_TEXT), "free 2"]))
    C.append(("description_after_other_object_freed", ["new 0", "new 2", "free 2", "desc 0 1 " + hx(ETF_TEXT)]))
    C.append(("bad_description_after_other_object_freed", ["new 0", "new 2", "free 2", "desc 0 1 " + hx(BAD_TEXT)]))
    C.append(("callbacks_after_other_object_freed", ["new 0", "new 2", "free 2"] + emit_define(ETF, 0, 1)))
    C.append(("parse_after_other_object_freed", ["new 0"] + emit_define(ETF, 0, 1) + ["new 2", "free 2"] +
              emit_tokens(codes(ETF, "a '+' a '*' a")) + ["parse 0 2 f"]))
    C.append(("parse_after_other_object_defined", ["new 0"] + emit_define(ETF, 0, 1) + ["new 2"] + emit_define(LIST, 2, 0) +
              emit_tokens(codes(ETF, "a '+' a '*' a")) + ["parse 0 2 f", "free 2"]))
    sent = codes(ETF, "a '+' a '*' '(' a '+' a ')'")
    bad = codes(ETF, "a '+' '(' '*' a ')' '+' a a")
    for la in (0, 1, 2):
        C.append(("parse_etf_la%d" % la, ["new 0"] + emit_config(0, la=la) + emit_define(ETF, 0, 1) + emit_tokens(sent) + ["parse 0 2 f"]))
    C.append(("parse_etf_default_alloc", ["new 0"] + emit_define(ETF, 0, 1) + emit_tokens(sent) + ["parse 0 0 f"]))
    C.append(("parse_etf_alloc_only", ["new 0"] + emit_define(ETF, 0, 1) + emit_tokens(sent) + ["parse 0 1 f"]))
    C.append(("parse_etf_recovery", ["new 0"] + emit_config(0, rec=1, match=2) + emit_define(ETF, 0, 1) + emit_tokens(bad) + ["parse 0 2 f"]))
    C.append(("parse_etf_recovery_la2_all", ["new 0"] + emit_config(0, rec=1, la=2, one=0) + emit_define(ETF, 0, 1) + emit_tokens(bad) + ["parse 0 2 f"]))
    C.append(("parse_etf_norecovery_error", ["new 0"] + emit_config(0, rec=0) + emit_define(ETF, 0, 1) + emit_tokens(bad) + ["parse 0 2 f"]))
    amb = codes(AMB, "a '+' a '*' a '+' a")
    C.append(("parse_amb_all", ["new 0"] + emit_config(0, one=0) + emit_define(AMB, 0, 1) + emit_tokens(amb) + ["parse 0 2 f"]))
    C.append(("parse_amb_cost_all", ["new 0"] + emit_config(0, one=0, cost=1) + emit_define(AMB, 0, 1) + emit_tokens(amb) + ["parse 0 2 f"]))
    C.append(("parse_amb_cost_one_default", ["new 0"] + emit_config(0, one=1, cost=1) + emit_define(AMB, 0, 1) + emit_tokens(amb) + ["parse 0 0 f"]))
    C.append(("parse_amb_cost_nofree", ["new 0"] + emit_config(0, one=0, cost=1) + emit_define(AMB, 0, 1) + emit_tokens(amb) + ["parse 0 1 f"]))
    C.append(("parse_list_empty_input", ["new 0"] + emit_define(LIST, 0, 0) + ["parse 0 2 f"]))
    C.append(("parse_list_40", ["new 0"] + emit_define(LIST, 0, 0) + emit_tokens([97] * 40) + ["parse 0 2 f"]))
    C.append(("parse_invalid_token", ["new 0"] + emit_define(LIST, 0, 0) + emit_tokens([97, 5, 97]) + ["parse 0 2 f"]))
    C.append(("parse_twice", ["new 0"] + emit_config(0, la=2) + emit_define(ETF, 0, 1) + emit_tokens(sent) + ["parse 0 2 f"] + emit_tokens(sent) + ["parse 0 2 f"]))
    amb12 = codes(AMB, "a '+' a '*' a '+' a '*' a '+' a '*' a")
    C.append(("parse_amb_13_cost_all", ["new 0"] + emit_config(0, one=0, cost=1, la=2) + emit_define(AMB, 0, 1) + emit_tokens(amb12) + ["parse 0 2 f"]))
    C.append(("parse_list_3000", ["new 0"] + emit_define(LIST, 0, 0) + ["krep 3000 97", "parse 0 2 h"]))
    big = G(" ; ".join("N%d : N%d t%d # n%d (0 1) | t%d # 0" % (i, i + 1, i, i, i) for i in range(40)) + " ; N40 : z # 0")
    C.append(("define_big_grammar", ["new 0"] + emit_define(big, 0, 1)))
    C.append(("parse_description_debug", ["new 0", "set 0 dbg 3", "desc 0 1 " + hx(ETF_TEXT)] + emit_tokens(sent[:3]) + ["parse 0 2 f"]))
    return C


WARM = ["new 7"] + emit_define(ETF, 7, 1) + emit_tokens(codes(ETF, "a '+' a")) + ["parse 7 2 n", "desc 7 1 " + hx(ETF_TEXT),
                                                                                     "k 97", "parse 7 0 n", "free 7"]
BYSTANDER = ["new 1"] + emit_define(AMB, 1, 1)
BY_CHECK = emit_tokens(codes(AMB, "a '*' a '+' a")) + ["set 1 one 0", "parse 1 2 f", "free 1"]


def random_corpus(rng, n):
    """seed-dependent scenarios: pool/random/mutant and `error' grammars, a sentence or a non-sentence, random flags,
    defined through the callbacks or (if printable) a description"""
    from . import recx, oracle
    C = []
    grams = sem.grammar_stream(rng, n) + recx.error_grammars(rng, n)
    rng.shuffle(grams)
    for i, (name, g, strict) in enumerate(grams[:n]):
        ins = gen.inputs_for(rng, g, 3, 6, 10)
        w = rng.choice(ins) if ins else []
        cfg = emit_config(0, la=rng.randrange(3), one=rng.randrange(2), cost=rng.randrange(2), rec=rng.randrange(2),
                          match=rng.randrange(1, 5))
        if desc.printable(g) and rng.random() < 0.4:
            text, den = desc.print_desc(rng, g)
            c = den.code_of()
            gc = g.code_of()
            define = ["desc 0 %d %s" % (strict, hx(text))]
            # a character terminal that no rule uses is not part of the described grammar: its code is then simply
            # an undeclared token code
            toks = [c.get(t, gc[t]) for t in w]
        else:
            c = g.code_of()
            define = emit_define(g, 0, strict)
            toks = [c[t] for t in w]
        C.append(("random_%d_%s" % (i, name), ["new 0"] + cfg + define + emit_tokens(toks) +
                  ["parse 0 %d f" % rng.choice((0, 1, 2, 2))]))
    return C


def make_case(cid, steps, k, warm):
    L = ["C %d" % cid]
    if warm:
        L += WARM
    L += BYSTANDER
    L.append("failat %d" % k)
    L += steps
    L.append("failat 0")
    L.append("free 0")
    L += BY_CHECK
    return L


def n_out_before(warm):
    """number of driver output steps before the steps under test"""
    def outs(lines):
        return sum(1 for l in lines if l.split()[0] in ("new", "set", "read", "desc", "parse", "free", "err", "walk", "ftree"))
    return (outs(WARM) if warm else 0) + outs(BYSTANDER)


def _worker(args):
    name, steps, warm, ks, variant = args
    sh = sem.Shard()
    exe = build.build(variant)
    lines = []
    cases = {}
    for i, k in enumerate(ks):
        L = make_case(i, steps, k, warm)
        cases[i] = (k, L)
        lines += L
    # batches of 40 cases per process
    tr = {}
    ids = list(cases)
    for b in range(0, len(ids), 40):
        part = ids[b:b + 40]
        txt = "\n".join("\n".join(cases[i][1]) for i in part) + "\n"
        tr.update(run.run_text(exe, txt))
    base = None
    nb = n_out_before(warm)
    for i in ids:
        k, L = cases[i]
        case = tr.get(i)
        sh.evals += 1
        rep = {"scenario": "\n".join(L) + "\n", "variant": variant, "scenario_name": name, "k": k, "warm": warm}
        if case is None:
            sh.inconclusive += 1
            continue
        if case.status != "ok":
            # confirm alone, in a fresh process
            alone = run.run_text(exe, "\n".join(L) + "\n").get(i)
            tag = "" if (alone is not None and alone.status != "ok") else ":only_after_earlier_faults"
            sh.viol.append(((case.key or case.status + "@case") + tag, "scenario=%s %s k=%d" % (name, "warm" if warm else "cold", k),
                            dict(rep, report=case.report[:4000])))
            continue
        outs = case.steps
        test = outs[nb:]
        if k == 0:
            base = outs
            continue
        faulted = [s for s in test if s.get("fault")]
        if not faulted:
            sh.count("k_beyond_allocations")
            continue
        f = faulted[0]
        sh.nontrivial.add((name, warm, k))
        sh.count("faults_in_%s" % f["op"])
        if f["op"] == "new":
            if not f.get("null"):
                sh.viol.append(("create_did_not_return_null@yaep_create_grammar", "scenario=%s k=%d" % (name, k), rep))
        else:
            if f.get("rc") != 1:
                sh.viol.append(("call_did_not_return_no_memory:%s@%s" % (f.get("rc"), f["op"]),
                                "scenario=%s %s k=%d rc=%s" % (name, "warm" if warm else "cold", k, f.get("rc")), rep))
            elif f.get("ec") != 1:
                sh.viol.append(("no_memory_not_recorded@%s" % f["op"], "scenario=%s k=%d ec=%s" % (name, k, f.get("ec")), rep))
        # bystander parse equals the fault-free one
        if base is not None:
            bp = [s for s in base if s.get("op") == "parse" and s.get("slot") == 1]
            cp = [s for s in outs if s.get("op") == "parse" and s.get("slot") == 1]
            if bp and cp:
                keys = ("rc", "amb", "err", "tree", "root")
                if {x: bp[-1].get(x) for x in keys} != {x: cp[-1].get(x) for x in keys}:
                    sh.viol.append(("other_object_affected@bystander", "scenario=%s k=%d" % (name, k), rep))
        if case.end and (case.end.get("lb") != 0):
            sh.count("cases_with_memory_left_after_fault")
    sh.samples.append({"scenario": name, "warm": warm, "k_values": ks[:10], "steps_under_test": steps[-4:]})
    return sh.result()


def count_allocs(exe, steps, warm):
    L = make_case(0, steps, 0, warm)
    c = run.run_text(exe, "\n".join(L) + "\n")[0]
    if c.status != "ok":
        # the scenario crashes even without a fault: not a harness matter, the sanitizer report is the witness
        return (c.key or c.status + "@case", c.report[:3000], "\n".join(L) + "\n")
    nb = n_out_before(warm)
    ntest = sum(1 for l in steps if l.split()[0] in ("new", "set", "read", "desc", "parse", "free", "err"))
    test = c.steps[nb:nb + ntest]
    a0 = [s["a0"] for s in test if "a0" in s]
    a1 = [s["a1"] for s in test if "a1" in s]
    return (max(a1) - min(a0)) if a0 else 0


def check(tier):
    ck = core.Check("C17", tier, level="fault_enumeration")
    exe = build.build("vf")
    rng = random.Random(ck.seed)
    jobs = []
    total_allocs = 0
    exhaustive = True
    table = []
    scen = corpus(tier) + random_corpus(rng, 8 if tier == "quick" else 240)
    for name, steps in scen:
        for warm in ((False, True) if not name.startswith("random_") else (rng.random() < 0.5,)):
            n = count_allocs(exe, steps, warm)
            if isinstance(n, tuple):
                ck.violation(n[0] + ":fault_free_run", "scenario=%s %s" % (name, "warm" if warm else "cold"),
                             {"scenario": n[2], "variant": "vf", "scenario_name": name, "k": 0, "warm": warm, "report": n[1]})
                continue
            total_allocs += n
            if tier == "thorough" or n <= 260:
                ks = list(range(1, n + 1))
            else:
                exhaustive = False
                ks = list(range(1, 151)) + sorted(rng.sample(range(151, n - 40), min(90, max(0, n - 191)))) + list(range(n - 40, n + 1))
            table.append((name, warm, n, len(ks)))
            # split into chunks for parallelism; each chunk begins with the fault-free run (k=0)
            per = 120
            for b in range(0, len(ks), per):
                jobs.append((name, steps, warm, [0] + ks[b:b + per], "vf"))
    res = core.pmap(_worker, jobs)
    counters = sem.merge(ck, res)
    ck.cov["exhaustive"] = exhaustive
    ck.cov["scenarios"] = [{"name": n, "warm": w, "allocations": a, "fault_points_run": k} for n, w, a, k in table]
    ck.cov["rule"] = ("corpus of %d fixed scenarios x {cold, warm} plus seed-dependent random scenarios (8 quick, 240 "
                      "thorough: pool/random/mutant/`error' grammars, sentence or non-sentence, random flags, callbacks "
                      "or description, cold or warm); the library is compiled with malloc/calloc/realloc/free "
                      "renamed to counting wrappers in the driver; for k = 1..N (N = allocation requests of the "
                      "fault-free run of the steps under test; quick tier: every k for N<=260, else first 150, 90 "
                      "sampled, last 40) the k-th request returns NULL. The faulted call must return NULL / "
                      "YAEP_NO_MEMORY and record it, nothing may crash (ASan/UBSan, exit() interposed), the object "
                      "must be freeable and a bystander object defined earlier must still give its fault-free parse. "
                      "Warm = a successful definition and parse on another, already freed object came first in the "
                      "process. Non-trivial = distinct (scenario, cold/warm, k) in which the fault really fired." % len(corpus()))
    ck.assumptions = ["reach is the stated corpus, not all programs", "single fault per run (one-shot k-th request)",
                      "C library only (operator new of the C++ containers is not interposed)"]
    ck.floor = 1000
    return ck.finish()
