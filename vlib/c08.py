from . import recx


def check(tier):
    return recx.check("C08", tier)
