"""Replay a recorded violation: rebuild from /repo, re-run, print transcript."""
import json, os, subprocess, sys
from . import build, run, sem
from .gram import Grammar


def replay(path):
    o = json.load(open(path))
    print("property=%s key=%s" % (o.get("property"), o.get("key")))
    print(o.get("text", "")[:1000])
    if o.get("harness") == "cont":
        exe = build.build(o["variant"])
        p = subprocess.run([exe, str(o["seed"]), str(o["seq"]), "1", str(o["max_ops"]), "/dev/stdout"],
                           capture_output=True, text=True)
        print(p.stdout[-3000:])
        print(p.stderr[-3000:])
        return 0 if p.returncode == 0 and '"viol":"' not in p.stdout else 1
    if "scenario" in o:
        exe = build.build(o.get("variant", "asan"))
        cs = run.run_text(exe, o["scenario"])
    elif "grammar" in o:
        g = Grammar.from_json(o["grammar"])
        cfgs = [o["config"]] if "config" in o else sem.ALL_CONFIGS
        # the case number selects the terminal padding of sem.emit_case
        ci = sem.CaseInfo(o.get("cid", 0), g, o.get("strict", 1), o["input"], cfgs)
        cs = sem.run_cases(o.get("variant", "asan"), [ci], None, h2=o.get("h2", False))
    else:
        print("nothing to replay")
        return 2
    bad = 0
    for cid, c in cs.items():
        print("case", cid, c.status, c.key)
        for s in c.steps:
            print("   ", json.dumps(s)[:2000])
        if c.report:
            print(c.report[:6000])
        if c.status != "ok":
            bad = 1
    return bad
