"""C14: grammar objects are independent of each other and of their own past."""
import random
from . import core, sem, build, run, hist


def _worker(args):
    seed, idx, n_hist, variant = args
    rng = random.Random(seed * 22801763489 + idx * 179424673)
    sh = sem.Shard()
    defs = hist.defn_pool(rng)
    hs = []
    lines = []
    fresh = {}          # key -> (cid, step)
    cid = 0
    for _ in range(n_hist):
        steps = hist.gen_history(rng, defs, rng.randrange(5, 41), "c14")
        hs.append((cid, steps))
        lines += hist.emit_history(cid, steps)
        cid += 1
    fresh_lines = []
    for hc, steps in hs:
        for st in steps:
            if st[0] in ("parse", "def"):
                k = hist.fresh_key(st)
                if k not in fresh:
                    fresh[k] = cid
                    fresh_lines += hist.emit_fresh(cid, st)
                    cid += 1
    exe = build.build(variant)
    tr = run.run_text(exe, "\n".join(lines + fresh_lines) + "\n")
    for hc, steps in hs:
        case = tr.get(hc)
        if case is None:
            sh.inconclusive += 1
            continue
        rep = {"scenario": "\n".join(hist.emit_history(0, steps)) + "\n", "variant": variant}
        if case.status != "ok":
            sh.viol.append((case.key or case.status + "@case", "history of %d steps" % len(steps),
                            dict(rep, report=case.report[:4000])))
        outs = case.steps
        n_objs_alive, max_alive, n_parses = 0, 0, 0
        failed_then_good = False
        last_failed = {}
        for i, st in enumerate(steps):
            if i >= len(outs):
                break
            o = outs[i]
            sh.evals += 1
            if st[0] == "new":
                n_objs_alive += 1
                max_alive = max(max_alive, n_objs_alive)
            elif st[0] == "free":
                n_objs_alive -= 1
                last_failed.pop(st[1], None)
            if st[0] == "set" and o.get("old") != st[4]:
                # a setter on a fresh object carrying the current settings returns the current value
                sh.viol.append(("differs_from_fresh_object:set:%s@-" % st[2], "step %d set %s: returned previous value %s, "
                                "the object's setting was %s" % (i, st[2], o.get("old"), st[4]), dict(rep, step=i)))
            if st[0] not in ("parse", "def"):
                continue
            fc = tr.get(fresh[hist.fresh_key(st)])
            if fc is None or fc.status != "ok":
                # the fresh run itself crashed: reported through its own key
                if fc is not None and fc.status != "ok":
                    sh.viol.append((fc.key or fc.status + "@fresh_case", "fresh-object run of step %r" % (st[:2],),
                                    {"scenario": "\n".join(hist.emit_fresh(0, st)) + "\n", "variant": variant,
                                     "report": fc.report[:3000]}))
                continue
            want_op = "parse" if st[0] == "parse" else None
            fsteps = [x for x in fc.steps if (x.get("op") == "parse" if want_op else x.get("op") in ("read", "desc"))]
            if not fsteps:
                continue
            f = fsteps[-1]
            a, b = hist.observation(o), hist.observation(f)
            if a.get("rc") == 0:
                a.pop("ec", None); a.pop("em", None); b.pop("ec", None); b.pop("em", None)
            if a != b:
                diff = [k for k in set(a) | set(b) if a.get(k) != b.get(k)]
                sh.viol.append(("differs_from_fresh_object:%s:%s@-" % (st[0], "+".join(sorted(diff))),
                                "step %d %s in history: %s ; on fresh object: %s" % (
                                    i, st[0], str({k: a.get(k) for k in diff})[:300], str({k: b.get(k) for k in diff})[:300]),
                                dict(rep, step=i, fresh="\n".join(hist.emit_fresh(0, st)) + "\n")))
            if st[0] == "parse":
                n_parses += 1
                defined = st[7]
                if not defined and st[3] != 3 and o.get("rc") != 2:
                    sh.viol.append(("parse_not_refused_without_good_definition@-", "step %d rc=%s" % (i, o.get("rc")),
                                    dict(rep, step=i)))
            else:
                if o.get("rc") != 0:
                    last_failed[st[1]] = True
                elif last_failed.pop(st[1], None):
                    failed_then_good = True
        if case.status == "ok" and case.end and (case.end.get("lb") != 0 or case.end.get("ly") != 0):
            sh.viol.append(("library_memory_not_released@case_end", "live blocks=%s bytes=%s" % (
                case.end.get("lb"), case.end.get("ly")), rep))
        if max_alive >= 2 and n_parses >= 2:
            sh.nontrivial.add(hash(rep["scenario"]))
            sh.count("histories_with_two_live_objects_and_two_parses")
        if failed_then_good:
            sh.count("histories_with_failed_then_good_definition")
    sh.count("fresh_object_cases", len(fresh))
    hc, steps = hs[0]
    sh.samples.append({"history": [str(s[:4])[:120] for s in steps][:25]})
    return sh.result()


def check(tier):
    ck = core.Check("C14", tier)
    shards, n = (16, 500) if tier == "quick" else (256, 1600)
    res = core.pmap(_worker, [(ck.seed, i, n, "vf" if i % 4 != 3 else "vf-small") for i in range(shards)])
    counters = sem.merge(ck, res)
    ck.cov["rule"] = ("random histories of 5-40 API calls over up to 3 live objects: create, set any flag, define "
                      "(10 good and 8 defective definitions per shard, callbacks or description), redefine, parse "
                      "(sentences/non-sentences of the current grammar, sometimes an undeclared code), free tree, free "
                      "object, in any order. Every define/parse observation (rc, error code/message on failure, "
                      "callbacks, ambiguity flag, tree dump) is compared with the same call executed on a fresh object "
                      "carrying only the object's current settings and definition (separate driver cases, memoised). "
                      "Library built with renamed malloc family: live bytes must be 0 when a history ends. Non-trivial "
                      "= distinct histories with >=2 objects alive at once and >=2 parses.")
    ck.assumptions = ["expectations come from the same library on a fresh object (metamorphic), not from a model"]
    ck.floor = 500
    ck.require("histories with a failed definition followed by a good one",
               counters.get("histories_with_failed_then_good_definition", 0), 50)
    return ck.finish()
