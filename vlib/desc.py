"""Description language: printer with lexical variation, and a strict reader
(reference 3.5) written from doc/yaep.txt.

read_desc(text) -> ("valid", Grammar) | ("invalid", reason) | ("grey", reason)
"""
import re
from .gram import Grammar, Rule, NIL

INT_MAX = 2 ** 31 - 1


class Lex:
    def __init__(self, text):
        self.t = text
        self.i = 0
        self.grey = None

    def err(self, why):
        raise SyntaxError(why)

    def next(self):
        """returns (kind, value) ; kinds: IDENT SEM_IDENT CHAR NUMBER TERM EOF and punctuation chars"""
        t = self.t
        n = len(t)
        while True:
            if self.i >= n:
                return ("EOF", None)
            c = t[self.i]
            self.i += 1
            if c in " \t\n":
                continue
            if c == "/":
                if self.i < n and t[self.i] == "*":
                    self.i += 1
                    j = t.find("*/", self.i)
                    if j < 0:
                        self.err("unfinished comment")
                    self.i = j + 2
                    continue
                self.err("bad /")
            if c in "=#|;-()":
                return (c, None)
            if c == "'":
                if self.i + 1 >= n + 0 and self.i >= n:
                    self.err("unfinished char")
                if self.i >= n:
                    self.err("unfinished char")
                ch = t[self.i]
                if self.i + 1 >= n or t[self.i + 1] != "'":
                    self.err("bad char constant")
                self.i += 2
                if not (32 <= ord(ch) < 127):
                    self.grey = "non-printable or 8-bit character constant"
                return ("CHAR", ch)
            if c.isascii() and (c.isalpha() or c == "_"):
                j = self.i
                while j < n and t[j].isascii() and (t[j].isalnum() or t[j] == "_"):
                    j += 1
                word = t[self.i - 1:j]
                self.i = j
                if word == "TERM":
                    return ("TERM", None)
                k = j
                while k < n and t[k] in " \t\n":
                    k += 1
                if k < n and t[k] == ":":
                    self.i = k + 1
                    return ("SEM_IDENT", word)
                return ("IDENT", word)
            if c.isascii() and c.isdigit():
                j = self.i
                while j < n and t[j].isascii() and t[j].isdigit():
                    j += 1
                v = int(t[self.i - 1:j])
                self.i = j
                if v > INT_MAX:
                    self.err("number too big")
                return ("NUMBER", v)
            self.err("invalid character %r" % c)


def read_desc(text):
    lx = Lex(text)
    toks = []
    try:
        while True:
            k = lx.next()
            toks.append(k)
            if k[0] == "EOF":
                break
    except SyntaxError as e:
        return ("invalid", str(e))
    pos = 0
    grey = [lx.grey] if lx.grey else []
    decls = []      # (name, code or None) in order of appearance (TERM idents and char constants)
    rules = []

    def peek():
        return toks[pos][0]

    try:
        if peek() == "EOF":
            raise SyntaxError("empty description")
        while peek() != "EOF":
            if peek() == "TERM":
                pos += 1
                while peek() == "IDENT":
                    name = toks[pos][1]
                    pos += 1
                    code = None
                    if peek() == "=":
                        pos += 1
                        if peek() != "NUMBER":
                            raise SyntaxError("number expected after =")
                        code = toks[pos][1]
                        pos += 1
                    decls.append((name, code))
                if peek() == ";":
                    pos += 1
            elif peek() == "SEM_IDENT":
                lhs = toks[pos][1]
                pos += 1
                while True:
                    rhs = []
                    while peek() in ("IDENT", "CHAR"):
                        if peek() == "CHAR":
                            ch = toks[pos][1]
                            nm = "'%s'" % ch
                            decls.append((nm, ord(ch) if ord(ch) < 128 else ord(ch) - 256))
                            rhs.append(nm)
                        else:
                            rhs.append(toks[pos][1])
                        pos += 1
                    anode, cost, transl = None, 0, None
                    if peek() == "#":
                        pos += 1
                        if peek() == "NUMBER":
                            transl = [toks[pos][1]]
                            pos += 1
                        elif peek() == "-":
                            transl = [NIL]
                            pos += 1
                        elif peek() == "IDENT":
                            anode = toks[pos][1]
                            pos += 1
                            cost = 1
                            if peek() == "NUMBER":
                                cost = toks[pos][1]
                                pos += 1
                            transl = []
                            if peek() == "(":
                                pos += 1
                                while peek() in ("NUMBER", "-"):
                                    transl.append(NIL if peek() == "-" else toks[pos][1])
                                    pos += 1
                                if peek() != ")":
                                    raise SyntaxError(") expected")
                                pos += 1
                            else:
                                grey.append("abstract node without parentheses")
                        else:
                            transl = []
                    rules.append(Rule(lhs, rhs, anode, cost, transl))
                    if peek() == "|":
                        pos += 1
                        continue
                    break
                if peek() == ";":
                    pos += 1
            else:
                raise SyntaxError("unexpected %s" % peek())
    except SyntaxError as e:
        return ("invalid", str(e))
    # denotation of terminals
    first = {}
    order = []
    for name, code in decls:
        if name not in first:
            first[name] = [code]
            order.append(name)
        else:
            first[name].append(code)
    terms = []
    nxt = 256
    explicit = set()
    for name in order:
        cs = first[name]
        ex = set(c for c in cs if c is not None)
        if len(ex) > 1:
            # different codes for one terminal: documented error
            return ("valid_error", 7)
        # repeated declarations: without code they are harmless (the code is the implicit one of the first
        # appearance); a declaration with a code gives the terminal that explicit code wherever it stands
        explicit |= ex
    for name in order:
        cs = first[name]
        ex = [c for c in cs if c is not None]
        if ex:
            terms.append((name, ex[0]))
        else:
            terms.append((name, nxt))
            nxt += 1
    imp = set(range(256, nxt))
    if imp & explicit:
        grey.append("explicit code inside the implicit code range")
    for name, code in terms:
        if code == NIL and False:
            pass
    for r in rules:
        for e in (r.transl or []):
            if e == NIL and False:
                pass
    # a translation number equal to INT_MAX means NIL in the callback interface
    if any(tok[0] == "NUMBER" and tok[1] == INT_MAX for tok in toks):
        grey.append("number equal to INT_MAX")
    if grey:
        return ("grey", "; ".join(grey))
    return ("valid", Grammar(terms, rules))


# ------------------------------------------------------------------ printer
IDENT_RE = re.compile(r"^[A-Za-z_][A-Za-z0-9_]*$")


def printable(g):
    """can g be written in the description language?"""
    for n, c in g.terms:
        if n.startswith("'"):
            if len(n) != 3 or n[2] != "'" or ord(n[1]) != c or not (32 <= c < 127):
                return False
        elif not IDENT_RE.match(n) or n in ("TERM", "error") or c < 0:
            return False
    for r in g.rules:
        if not IDENT_RE.match(r.lhs) or r.lhs == "TERM":
            return False
        for s in r.rhs:
            if s.startswith("'"):
                continue
            if not IDENT_RE.match(s) or s == "TERM":
                return False
        if r.anode is not None and (not IDENT_RE.match(r.anode) or r.anode == "TERM" or r.cost < 0):
            return False
        if r.anode is None and r.transl is not None and len(r.transl) > 1:
            return False
        if any(e != NIL and e < 0 for e in (r.transl or [])):
            return False
    return True


def print_desc(rng, g, implicit=False):
    """Text of g with random lexical variation.  Returns (text, denoted
    grammar).  With implicit=True identifier terminals get implicit codes
    256.. in order of appearance (the denoted grammar has those codes)."""
    def ws(must=False):
        r = rng.random()
        if r < 0.55:
            return " "
        if r < 0.7:
            return "\n" if must or rng.random() < 0.9 else ""
        if r < 0.8:
            return "\t "
        if r < 0.9:
            return " /* c%d */ " % rng.randrange(100)
        if r < 0.95:
            return "\n/* multi\n line */\n"
        return "  " if must or rng.random() < 0.7 else (" " if must else "")

    out = []
    ident_terms = [(n, c) for n, c in g.terms if not n.startswith("'")]
    # where to put TERM sections: all first, or split around rules
    codes = {}
    nxt = 256
    decl_chunks = []
    if ident_terms:
        k = 1 if rng.random() < 0.6 else rng.randrange(1, min(3, len(ident_terms)) + 1)
        cuts = sorted(rng.sample(range(1, len(ident_terms)), k - 1)) if len(ident_terms) > 1 and k > 1 else []
        prev = 0
        for cpos in cuts + [len(ident_terms)]:
            decl_chunks.append(ident_terms[prev:cpos])
            prev = cpos
    elif rng.random() < 0.3:
        decl_chunks.append([])
    def term_section(chunk, repeat_from=None):
        nonlocal nxt
        s = "TERM"
        for n, c in chunk:
            s += ws(True) + n
            if implicit:
                if n not in codes:
                    codes[n] = nxt
                    nxt += 1
            else:
                codes[n] = c
                s += ws() + "=" + ws() + str(c)
        if repeat_from and rng.random() < 0.35:
            # a repeated declaration (possibly ahead of the section that declares the terminal): without a code,
            # or with the same code -- harmless either way; a code-less first appearance fixes the implicit code
            n, c = rng.choice(repeat_from)
            if implicit:
                if n not in codes:
                    codes[n] = nxt
                    nxt += 1
                s += ws(True) + n
            elif rng.random() < 0.4:
                s += ws(True) + n
            else:
                s += ws(True) + n + ws() + "=" + ws() + str(c)
        s += rng.choice([";", ws(True), " ;\n", "\n"])
        return s
    # group rules by consecutive lhs
    rule_texts = []
    i = 0
    rules = g.rules
    while i < len(rules):
        lhs = rules[i].lhs
        alts = [rules[i]]
        i += 1
        while i < len(rules) and rules[i].lhs == lhs and rng.random() < 0.7:
            alts.append(rules[i])
            i += 1
        s = lhs + rng.choice(["", " ", "\n", "  \t"]) + ":"
        for ai, r in enumerate(alts):
            if ai:
                s += ws() + "|"
            for sym in r.rhs:
                s += ws(True) + sym
            tr = r.transl
            if r.anode is not None:
                s += ws(True) + "#" + ws() + r.anode
                if r.cost != 1 or rng.random() < 0.3:
                    s += ws(True) + str(r.cost)
                s += ws() + "(" + "".join(ws(True) + ("-" if e == NIL else str(e)) for e in (tr or [])) + ws() + ")"
            elif tr is None or tr == []:
                if rng.random() < 0.5:
                    s += ws(True) + "#"
            elif tr[0] == NIL:
                s += ws(True) + "#" + ws() + "-"
            else:
                s += ws(True) + "#" + ws() + str(tr[0])
        s += rng.choice([";", " ;", "\n;", ws(True) + ";", "\n"]) if rng.random() < 0.8 else "\n"
        rule_texts.append(s)
    # interleave: first chunk before the first rule (terminals must be declared before use? no: any order
    # is allowed by the syntax because all terminals are collected before the rules are read)
    pieces = []
    pending = list(decl_chunks)
    if pending and (rng.random() < 0.8 or len(rule_texts) == 0):
        pieces.append(term_section(pending.pop(0), repeat_from=ident_terms if rng.random() < 0.5 else None))
    for rt in rule_texts:
        pieces.append(rt)
        if pending and rng.random() < 0.5:
            pieces.append(term_section(pending.pop(0), repeat_from=ident_terms))
    while pending:
        pieces.append(term_section(pending.pop(0), repeat_from=ident_terms))
    text = ws() + ("\n" if rng.random() < 0.5 else " ").join(pieces) + ws()
    used = set(x for r in g.rules for x in r.rhs)
    terms = []
    for n, c in g.terms:
        if n.startswith("'"):
            if n in used:
                terms.append((n, c))
        else:
            terms.append((n, codes.get(n, c)))
    den = Grammar(terms, [Rule(r.lhs, list(r.rhs), r.anode, r.cost if r.anode is not None else 0,
                               (r.transl if r.transl is not None else ([] if r.anode is not None else None)))
                          for r in g.rules])
    return text, den
