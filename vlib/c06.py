from . import recx


def check(tier):
    return recx.check("C06", tier)
