"""Self-test of the reference models ("guarding the guards").  A disagreement
is a harness failure (exit 2), never a violation."""
import itertools, random
from . import oracle, gen, desc
from .gram import NIL, Grammar, Rule


def brute_trees(g, maxlen):
    """All derivation trees of every nonterminal with yield length <= maxlen,
    for grammars without nullable nonterminals: {A: [(yield, translation, ())]}.
    Independent of oracle.T: direct structural recursion on rules."""
    tn = set(g.term_names()) | {"error"}
    code = g.code_of()
    by = {}
    for r in g.rules:
        by.setdefault(r.lhs, []).append(r)
    memo = {}

    def trees(a, m, offset_free=True):
        # yields are tuples of terminal names; translations are built with
        # positions relative to the start of the yield and shifted by the caller
        key = (a, m)
        if key in memo:
            return memo[key]
        memo[key] = []          # cycle guard (grammars are loop-free)
        out = []
        for r in by.get(a, []):
            n = len(r.rhs)
            if n > m:
                continue

            def rec(i, left):
                # sequences for rhs[i:] with total length <= left, each symbol >= 1
                if i == n:
                    yield ((), ())
                    return
                s = r.rhs[i]
                rest_min = n - i - 1
                if s in tn:
                    if left - 1 >= rest_min:
                        for y, ts in rec(i + 1, left - 1):
                            yield ((s,) + y, ((s, None),) + ts)
                else:
                    for (y1, t1) in trees(s, left - rest_min):
                        for y, ts in rec(i + 1, left - len(y1)):
                            yield (y1 + y, ((s, (y1, t1)),) + ts)
            for y, parts in rec(0, m):
                # translation
                pos = 0
                starts = []
                for (s, sub) in parts:
                    starts.append(pos)
                    pos += 1 if sub is None else len(sub[0])

                def tr(k):
                    s, sub = parts[k]
                    if s == "error":
                        return 'E'
                    if sub is None:
                        return ('T', code[s], starts[k])
                    return shift(sub[1], starts[k])
                t = r.transl or []
                if r.anode is None:
                    if not t or t[0] == NIL:
                        res = 'N'
                    else:
                        res = tr(t[0])
                else:
                    res = ('A', r.anode, r.cost, tuple('N' if e == NIL else tr(e) for e in t))
                out.append((y, res))
        memo[key] = out
        return out

    def shift(t, d):
        if isinstance(t, tuple):
            if t[0] == 'T':
                return ('T', t[1], t[2] + d)
            if t[0] == 'A':
                return ('A', t[1], t[2], tuple(shift(c, d) for c in t[3]))
        return t
    return trees


def run():
    rng = random.Random(12345)
    n_g = n_w = 0
    # 1. translations and derivation counts vs brute force (no nullable symbols)
    tries = 0
    while n_g < 60 and tries < 3000:
        tries += 1
        g, s = gen.accepted_random_grammar(rng, strict=None, max_rules=6, max_nts=3, max_terms=2)
        an = oracle.Analysis(g)
        if any(a in an.nullable for a in an.nts):
            continue
        n_g += 1
        ref = oracle.Ref(g)
        L = 5
        bt = brute_trees(g, L)(g.start(), L)
        by_yield = {}
        for y, t in bt:
            by_yield.setdefault(y, []).append(t)
        for w in gen.all_strings(g.term_names(), L):
            n_w += 1
            w = tuple(w)
            ref.prepare([(t, i) for i, t in enumerate(w)])
            T = set(ref.root_translations())
            N = ref.root_count()
            exp = by_yield.get(w, [])
            if set(exp) != T or min(2, len(exp)) != N or ref.sentence(list(w)) != bool(exp):
                print("SELFTEST FAILURE (translations): grammar=%r input=%s brute=%s oracle=%s N=%s sentence=%s" % (
                    g, w, sorted(map(oracle.show, set(exp))), sorted(map(oracle.show, T)), N, ref.sentence(list(w))))
                return 2
    # 2. Earley recogniser vs span fixpoint on grammars with nullable symbols
    n2 = 0
    for _ in range(150):
        g, s = gen.accepted_random_grammar(rng, strict=None, error_p=0.05)
        ref = oracle.Ref(g)
        for w in gen.all_strings(g.term_names(), 5 if len(g.terms) <= 2 else 4):
            n2 += 1
            ref.prepare([(t, i) for i, t in enumerate(w)])
            a = ref.sentence(list(w))
            b = ref.N(ref.start, 0, len(w)) > 0
            if a != b:
                print("SELFTEST FAILURE (recognition): grammar=%r input=%s earley=%s spans=%s" % (g, w, a, b))
                return 2
            # first_error consistent with prefix viability
            e = ref.first_error(list(w))
            if (e is None) != a:
                print("SELFTEST FAILURE (first_error): grammar=%r input=%s" % (g, w))
                return 2
            if e is not None:
                if not ref.viable(list(w[:e])) or (e < len(w) and ref.viable(list(w[:e + 1]))):
                    print("SELFTEST FAILURE (viable prefix): grammar=%r input=%s e=%s" % (g, w, e))
                    return 2
    # 3. description printer / reader round trip
    n3 = 0
    for _ in range(300):
        g, s = gen.accepted_random_grammar(rng, error_p=0.05)
        if not desc.printable(g):
            continue
        text, den = desc.print_desc(rng, g, implicit=rng.random() < 0.5)
        kind, rd = desc.read_desc(text)
        nk = lambda r: (r.lhs, tuple(r.rhs), r.anode, r.cost, tuple(r.transl or ()))
        if kind != "valid" or sorted(rd.terms) != sorted(den.terms) or [nk(r) for r in rd.rules] != [nk(r) for r in den.rules]:
            print("SELFTEST FAILURE (description round trip): %r -> %s %r" % (text, kind, rd))
            return 2
        n3 += 1
    print("selftest ok: %d grammars / %d inputs vs brute-force translations, %d inputs Earley vs spans, %d description round trips" % (
        n_g, n_w, n2, n3))
    return 0
