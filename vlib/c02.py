from . import semx


def check(tier):
    return semx.check("C02", tier)
