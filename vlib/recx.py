"""C06, C07, C08: syntax error reporting and error recovery."""
import itertools, random
from . import core, sem, gen, oracle
from .semx import shadow_bad

ERR = oracle.ERR


def rec_configs(matches, las=(0, 1, 2), ones=(1,), with_off=False):
    out = []
    if with_off:
        out += [dict(la=la, one=1, cost=0, rec=0) for la in las]
    out += [dict(la=la, one=o, cost=0, rec=1, match=m) for la in las for o in ones for m in matches]
    return out


def error_grammars(rng, n, strict=None, error_share=0.7):
    """accepted grammars, most of them with error rules"""
    out = []
    pool = [(nm, g) for nm, g in gen.pool()]
    epool = [(nm, g) for nm, g in pool if any(ERR in r.rhs for r in g.rules)]
    i = 0
    while len(out) < n:
        i += 1
        k = i % 7
        if k == 6:
            k = 4
        if k >= 4:
            # item lists (inputs made of repeated fragments) and tail chains, mostly with an added error rule
            from .gram import Rule, Grammar
            g = gen.item_list_grammar(rng) if k == 4 else gen.tail_chain_grammar(rng, listed_p=0.8)
            ig = getattr(g, "input_gen", None)
            nm = "item_list" if k == 4 else "tail_chain"
            if rng.random() < error_share:
                a = "I" if k == 4 else rng.choice(["S", "S", rng.choice(g.nonterms())])
                rhs = [ERR] + (["';'"] if rng.random() < 0.7 else [])
                an, c, t = gen.random_transl(rng, rhs)
                g = Grammar(g.terms, g.rules + [Rule(a, rhs, an, c, t)])
                g.input_gen = ig
                nm += "+error"
            s = 1 if not oracle.wf(g, 1) else 0
        elif k == 0:
            nm, g = epool[rng.randrange(len(epool))]
            s = 1 if not oracle.wf(g, 1) else 0
        elif k == 1:
            g, s = gen.accepted_random_grammar(rng, strict=strict, error_p=0.12 if rng.random() < error_share else 0.0,
                                               max_rules=7)
            nm = "random"
        elif k == 2:
            src = epool if rng.random() < error_share else pool
            nm, g = src[rng.randrange(len(src))]
            for _ in range(rng.randrange(1, 3)):
                g2 = gen.mutate(rng, g)
                if not oracle.wf(g2, 1):
                    g = g2
            nm = "mutant:" + nm
            s = 1 if not oracle.wf(g, 1) else 0
        else:
            # add an error rule to an error-free accepted grammar
            g, s = gen.accepted_random_grammar(rng, strict=strict, max_rules=6)
            nts = g.nonterms()
            a = rng.choice(nts)
            rhs = [ERR] + ([rng.choice(g.term_names())] if rng.random() < 0.7 and g.terms else [])
            an, c, t = gen.random_transl(rng, rhs)
            from .gram import Rule, Grammar
            g = Grammar(g.terms, g.rules + [Rule(a, rhs, an, c, t)])
            nm = "random+error"
        if strict is not None:
            if oracle.wf(g, strict):
                continue
            s = strict
        if oracle.wf(g, s):
            continue
        out.append((nm, g, s))
    return out


def nested_error_case(rng):
    """Nested constructs with an `error' alternative on every level and recovery
    tails that share terminals: going far back is often cheaper than skipping
    forward, and the back frontier has to advance several times."""
    from .gram import Rule, Grammar
    L = rng.randrange(2, 6)
    alpha = ["p", "q", "r", "x", "y"]
    used = set()
    rules = []
    prefixes = []
    tails = []
    for i in range(L + 1):
        tail = [rng.choice(alpha) for _ in range(rng.randrange(1, 7))]
        tails.append(tail)
        if i < L:
            pre = ["k%d" % i] + (["m%d" % i] if rng.random() < 0.6 else []) + (["n%d" % i] if rng.random() < 0.2 else [])
            prefixes.append(pre)
            rules.append(Rule("N%d" % i, pre + ["N%d" % (i + 1)], "l%d" % i, 1, list(range(len(pre) + 1))))
        else:
            rules.append(Rule("N%d" % i, ["z"], None, 0, [0]))
        if i > 0 or rng.random() < 0.5:
            rules.append(Rule("N%d" % i, [ERR] + tail, "e%d" % i, 1, []))
        used.update(tail)
    terms = []
    for r in rules:
        for x in r.rhs:
            if x != ERR and not x.startswith("N") and x not in [t[0] for t in terms]:
                terms.append((x, 300 + len(terms)))
    for x in alpha + ["z"]:
        if x not in [t[0] for t in terms]:
            terms.append((x, 300 + len(terms)))
    if rng.random() < 0.5:
        # competing recoveries: three (or more) levels expect `error'; the innermost can recover by skipping X
        # tokens, the levels between cannot recover at all, an outer one recovers at once; the back distances
        # b1, b2.. and X are drawn so that X is often just above the total back distance
        nlev = rng.randrange(3, 5)
        bs = [rng.choice([1, 1, 2])] + [rng.choice([1, 2, 2, 3]) for _ in range(nlev - 2)]
        tot = sum(bs)
        X = rng.choice([tot + 1, tot + 1, tot + 2, tot - 1, rng.randrange(1, tot + 4)])
        X = max(1, min(X, 7))
        names = ["N%d" % i for i in range(nlev)]
        rules = []
        pre = []
        seq = list(reversed(bs))          # prefix lengths from outer to inner
        lead = ["k0"]
        rules.append(Rule("S", lead + [names[0]], "top", 1, [0, 1]))
        for i in range(nlev):
            if i < nlev - 1:
                pr = ["k%d_%d" % (i + 1, t) for t in range(seq[i])]
                pre.append(pr)
                rules.append(Rule(names[i], pr + [names[i + 1]], "l%d" % i, 1, list(range(len(pr) + 1))))
            else:
                rules.append(Rule(names[i], ["z"], None, 0, [0]))
        G_ = [rng.choice(alpha) for _ in range(X)]
        U_ = [rng.choice(alpha) for _ in range(rng.randrange(1, 6))]
        rules.append(Rule(names[0], [ERR] + G_ + U_, "e0", 1, []))
        rules.append(Rule(names[-1], [ERR] + U_, "eN", 1, []))
        for i in range(1, nlev - 1):
            rules.append(Rule(names[i], [ERR, "z", "z"], "e%d" % i, 1, []))
        terms = []
        for r in rules:
            for x in r.rhs:
                if x != ERR and not x.startswith("N") and x not in [t[0] for t in terms]:
                    terms.append((x, 300 + len(terms)))
        for x in alpha + ["z"]:
            if x not in [t[0] for t in terms]:
                terms.append((x, 300 + len(terms)))
        g = Grammar(terms, rules)
        w = list(lead)
        for pr in pre:
            w += pr
        inputs = [w + G_ + U_, w + G_ + U_ + [rng.choice(alpha)], w + G_[1:] + U_]
        return g, [x for x in inputs if len(x) <= 20]
    g = Grammar(terms, rules)
    inputs = []
    for _ in range(rng.randrange(3, 8)):
        d = rng.randrange(1, L + 1)
        w = []
        for i in range(d):
            w += prefixes[i]
        if rng.random() < 0.3 and w:
            w = w[:-1]                       # break inside a prefix
        j = rng.randrange(0, d + 1)
        garbage = [rng.choice(alpha + ["z"]) for _ in range(rng.randrange(0, 4))]
        tail = list(tails[j])
        if rng.random() < 0.3 and len(tail) > 1:
            tail = tail[rng.randrange(1, len(tail)):]
        w += garbage + tail + ([rng.choice(alpha)] if rng.random() < 0.2 else [])
        if len(w) <= 16:
            inputs.append(w)
    return g, inputs


def reparse_inputs(rng, g, ref, n, sens=None, maxlen=24):
    """X J Y: a prefix X of a short sentence, at most two junk tokens J, a whole short sentence Y (sometimes two).
    The recovery throws X away or patches it and rewrites the parser list; Y is then parsed at list positions that
    were in use before, by other sets -- whatever the parser remembered about those positions is stale."""
    terms = g.term_names()
    if sens is None:
        sens = [w for w in gen.inputs_for(rng, g, 3, 10, 8) if w and ref.sentence(w)]
    sens = [w for w in sens if w and len(w) <= 8]
    if not sens or not terms:
        return []
    out, seen = [], set()
    for _ in range(4 * n):
        s1, s2 = rng.choice(sens), rng.choice(sens)
        w = s1[:rng.randrange(1, len(s1) + 1)] + [rng.choice(terms) for _ in range(rng.choice([0, 0, 1, 1, 2]))] + s2
        if rng.random() < 0.25:
            w = w + rng.choice(sens)
        if tuple(w) not in seen and len(w) <= maxlen and not ref.sentence(w):
            seen.add(tuple(w))
            out.append(w)
            if len(out) >= n:
                break
    return out


def rec_inputs(rng, g, ref, n_inputs, maxlen):
    terms = g.term_names()
    ins = gen.inputs_for(rng, g, 3, 12, maxlen)
    non = [w for w in ins if not ref.sentence(w)]
    sen = [w for w in ins if ref.sentence(w)]
    rng.shuffle(non)
    rng.shuffle(sen)
    out = non[:max(1, n_inputs - 2)] + sen[:2]
    if any(ERR in r.rhs for r in g.rules):
        have = set(tuple(w) for w in out)
        out += [w for w in reparse_inputs(rng, g, ref, max(4, n_inputs // 2), sens=sen, maxlen=16) if tuple(w) not in have]
    if getattr(g, "input_gen", None) is not None and terms:
        # long sentences made of repeated fragments, damaged only at their end: whatever the parser remembered
        # along the valid prefix must not move the error forward
        seen = set(tuple(w) for w in out)
        longs = [w for w in sen if len(w) >= 6]
        for w in longs[:max(2, n_inputs)]:
            for v in (w[:-1], w[:-1] + [rng.choice(terms)]):
                if tuple(v) not in seen and not ref.sentence(v):
                    seen.add(tuple(v))
                    out.append(v)
    return out


# ------------------------------------------------------------------ C06
def judge_c06(sh, ci, case, ref, ctx):
    w = ci.w
    n = len(w)
    e = ref.first_error(w)
    if e is None:
        return
    for i, st in enumerate(sem.parse_steps(case)):
        c = ci.configs[i]
        sh.evals += 1
        if st["rc"] != 0:
            sh.count("not_judged_rc")
            continue
        calls = st["err"]
        probs = []
        if not calls:
            probs.append("no_call")
        else:
            f = calls[0]
            if f[0] != e:
                probs.append("first_error_token_wrong")
            if not c["rec"]:
                if len(calls) != 1:
                    probs.append("more_than_one_call_without_recovery")
                if f[2:] != [-1, -1, -1, -1]:
                    probs.append("recovery_arguments_without_recovery")
                if f[1] != (f[0] if f[0] < n else -1):
                    probs.append("error_attribute_wrong")
            else:
                last = -1
                for cl in calls:
                    er, ea, s, sa, r, ra = cl
                    if not (0 <= er <= n):
                        probs.append("error_token_outside_input")
                    elif ea != (er if er < n else -1):
                        probs.append("error_attribute_wrong")
                    if not (0 <= s <= r <= n):
                        probs.append("ignored_range_inconsistent")
                    else:
                        if sa != (s if s < n else -1):
                            probs.append("start_attribute_wrong")
                        if ra != (r if r < n else -1):
                            probs.append("recovered_attribute_wrong")
                    if er <= last:
                        probs.append("error_tokens_not_increasing")
                    last = er
        for p in sorted(set(probs)):
            sh.viol.append((p + "@-", "grammar=%r input=[%s] config=%s expected_error_token=%d calls=%s" % (
                ci.g, " ".join(w), sem.cfg_name(c), e, calls), ci.replay(i, {"expected_error_token": e})))
    if 0 < e < n:
        sh.nontrivial.add(hash((ci.g.key(), tuple(w))))
        sh.count("error_in_middle")
    elif e == 0:
        sh.count("error_at_token_0")
    else:
        sh.count("error_at_end_of_input")
    if len(sh.samples) < 2 and 0 < e < n:
        sh.samples.append({"grammar": repr(ci.g), "input": w, "first_offending_token": e, "configurations": len(ci.configs)})


# ------------------------------------------------------------------ C08
def simple_recovery_min(ref, w, e, m):
    """minimum cost over simple recoveries for the first error at token e"""
    n = len(w)
    best = None
    via = {}
    for p in range(e, -1, -1):
        back = e - p
        if best is not None and back >= best:
            break
        pre = w[:p] + [ERR]
        if not ref.viable(pre):
            continue
        for q in range(e, n + 1):
            cost = back + (q - e)
            if best is not None and cost >= best:
                break
            rest = n - q
            if rest >= m:
                ok = ref.viable(pre + w[q:q + m])
            else:
                ok = ref.sentence(pre + w[q:])
            if ok:
                best = cost
                via = (p, q)
                break
    return best, via


def judge_c08(sh, ci, case, ref, ctx):
    w = ci.w
    n = len(w)
    e = ref.first_error(w)
    if e is None:
        return
    cache = {}
    for i, st in enumerate(sem.parse_steps(case)):
        c = ci.configs[i]
        if not c["rec"] or st["rc"] != 0 or not st["err"]:
            continue
        sh.evals += 1
        m = c.get("match", 3)
        if m not in cache:
            cache[m] = simple_recovery_min(ref, w, e, m)
        best, via = cache[m]
        f = st["err"][0]
        if f[0] != e:
            sh.count("not_judged_error_token_differs")
            continue
        ignored = f[4] - f[2]
        hk = st.get("hk", {})
        if best is None:
            sh.count("no_simple_recovery")   # cannot happen when the implicit rule exists
            continue
        if ignored > best:
            sh.viol.append(("ignored_more_than_simple_recovery@-",
                            "grammar=%r input=[%s] config=%s error_token=%d reported=[%d,%d) ignored=%d simple_minimum=%d via back_to=%s skip_to=%s" % (
                                ci.g, " ".join(w), sem.cfg_name(c), e, f[2], f[4], ignored, best, via[0], via[1]),
                            ci.replay(i, {"simple_minimum": best, "via": via})))
        if ignored < best:
            sh.count("cheaper_than_any_simple_recovery")
        if "7" in hk:
            sh.count("back_frontier_advanced")
            if hk["7"][0] >= 2:
                sh.count("back_frontier_advanced_twice")
        if via and via[0] < e:
            sh.count("minimum_needs_going_back")
            sh.nontrivial.add(hash((ci.g.key(), tuple(w), m)))
        elif best > 0:
            sh.nontrivial.add(hash((ci.g.key(), tuple(w), m)))
    if len(sh.samples) < 2 and cache:
        m = sorted(cache)[0]
        sh.samples.append({"grammar": repr(ci.g), "input": w, "first_error": e, "recovery_match": m,
                           "simple_recovery_minimum": cache[m][0]})


# ------------------------------------------------------------------ C07
def segment_sets(n, K, nseg):
    """all lists of exactly nseg disjoint ordered segments (start,len) of
    total length K; adjacent and empty segments allowed."""
    out = []

    def go(pos, left, segs):
        if len(segs) == nseg:
            if left == 0:
                out.append(list(segs))
            return
        for s in range(pos, n + 1):
            maxl = min(left, n - s)
            if len(segs) == nseg - 1:
                if left <= n - s:
                    segs.append((s, left))
                    go(s + left, 0, segs)
                    segs.pop()
                continue
            for l in range(0, maxl + 1):
                segs.append((s, l))
                go(s + l, left - l, segs)
                segs.pop()
    go(0, K, [])
    return out


def repaired(w, segs):
    out = []
    pos = 0
    for s, l in segs:
        for k in range(pos, s):
            out.append((w[k], k))
        out.append((ERR, None))
        pos = s + l
    for k in range(pos, len(w)):
        out.append((w[k], k))
    return out


def strip_pos(t):
    if isinstance(t, tuple):
        if t[0] == 'T':
            return ('T', t[1])
        if t[0] == 'A':
            return ('A', t[1], t[2], tuple(strip_pos(c) for c in t[3]))
    return t


class RepairSpace:
    def __init__(self, ref, w, budget=4000):
        self.ref = ref
        self.w = w
        self.cache = {}
        self.budget = budget
        self.spent = 0

    def translations(self, segs):
        key = tuple(segs)
        v = self.cache.get(key)
        if v is not None:
            return v
        toks = repaired(self.w, segs)
        names = [t[0] for t in toks]
        self.spent += 1
        if not self.ref.sentence(names):
            v = ()
        else:
            self.ref.prepare(toks)
            v = tuple(self.ref.root_translations())
            if self.ref.capped:
                v = v + ("CAPPED",)
        self.cache[key] = v
        return v


def judge_c07(sh, ci, case, ref, ctx):
    w = ci.w
    n = len(w)
    sent = ref.sentence(w)
    space = RepairSpace(ref, w)
    for i, st in enumerate(sem.parse_steps(case)):
        c = ci.configs[i]
        if not c["rec"]:
            continue
        sh.evals += 1
        shadow_bad(sh, ci, i, st)
        calls = st["err"]
        hk = st.get("hk", {})
        keys = []
        detail = ""
        if st["rc"] != 0:
            keys.append("rc_nonzero@-")
        elif st.get("root", -1) == -1:
            keys.append("null_root_with_recovery@-")
        elif bool(calls) != (not sent):
            keys.append("callback_iff_nonsentence@-")
        else:
            nodes = st["tree"]
            probs = oracle.dag_check(nodes)
            kinds = [x[0] for x in nodes]
            if kinds.count('N') > 1 or kinds.count('E') > 1:
                probs.append("nil_or_error_not_single")
            if c["one"] and 'L' in kinds:
                probs.append("alt_in_single_tree")
            if probs:
                keys += ["tree:%s@-" % p for p in sorted(set(probs))]
            else:
                ranges_ok = all(0 <= cl[2] <= cl[4] <= n for cl in calls)
                if not ranges_ok:
                    sh.count("not_judged_bad_ranges")     # C06's business
                    continue
                K = sum(cl[4] - cl[2] for cl in calls)
                got, gcap = oracle.dag_expand(nodes)
                if gcap:
                    sh.inconclusive += 1
                    continue
                nsec = hk.get("10", [0])[0]
                bound = len(calls) + nsec          # upper bound of error shifts in the final parse
                maxseg = 0 if sent else min(6, bound)
                explained = set()
                explained_nopos = set()
                got_nopos = {strip_pos(t): t for t in got}
                # fast path: the repair the callbacks literally describe
                segs = [(cl[2], cl[4] - cl[2]) for cl in calls]
                literal = all(segs[k][0] + segs[k][1] <= segs[k + 1][0] for k in range(len(segs) - 1))
                cand = []
                if sent:
                    cand = [[]]
                elif literal:
                    cand = [segs]
                capped = False

                def try_cands(cands):
                    nonlocal capped
                    for sg in cands:
                        tr = space.translations(sg)
                        if not tr:
                            continue
                        if tr and tr[-1] == "CAPPED":
                            capped = True
                            tr = tr[:-1]
                        for t in tr:
                            if t in got:
                                explained.add(t)
                            sp = strip_pos(t)
                            if sp in got_nopos:
                                explained_nopos.add(sp)
                        if len(explained) == len(got):
                            return True
                    return False

                done = try_cands(cand)
                used_full = False
                if not done and not sent:
                    if n <= 9:
                        used_full = True
                        over = False
                        for m in range(1, maxseg + 1):
                            segsets = segment_sets(n, K, m)
                            if space.spent + len(segsets) > space.budget:
                                over = True
                                break
                            done = try_cands(segsets)
                            if done:
                                break
                        if not done and (over or bound > maxseg):
                            sh.inconclusive += 1
                            sh.count("repair_space_over_budget" if over else "repair_may_need_more_segments_than_searched")
                            continue
                    else:
                        sh.inconclusive += 1
                        sh.count("repair_search_skipped_long_input")
                        continue
                if done:
                    sh.count("explained_by_literal_repair" if not used_full else "explained_by_other_repair")
                    # unique single-segment repair => reported range must be it
                    if len(calls) == 1 and c["one"] and n <= 9 and not sent:
                        t = next(iter(got))
                        singles = [sg for sg in segment_sets(n, K, 1) if t in space.translations(sg)]
                        if len(singles) == 1:
                            sh.count("unique_single_segment_repair")
                            if (calls[0][2], K) != singles[0][0]:
                                # One callback may stand for several `error' shifts (a secondary recovery state,
                                # hook event 10).  The clause speaks of a repair that is unique: if a repair of
                                # the same size with more segments -- as many as error shifts can have happened --
                                # explains the tree too, the single-segment one is not *the* repair.
                                other, over = False, False
                                for m in range(2, min(6, bound) + 1):
                                    segsets = segment_sets(n, K, m)
                                    if space.spent + len(segsets) > space.budget:
                                        over = True
                                        break
                                    if any(t in space.translations(sg) for sg in segsets):
                                        other = True
                                        break
                                if other:
                                    sh.count("single_segment_repair_not_the_only_repair")
                                elif over or bound > 6:
                                    sh.inconclusive += 1
                                    sh.count("repair_uniqueness_not_decided")
                                else:
                                    keys.append("reported_range_not_the_repair@-")
                                    detail = "reported=[%d,%d) unique_repair=%s" % (calls[0][2], calls[0][4], singles[0])
                elif capped:
                    sh.inconclusive += 1
                    continue
                elif len(explained_nopos) == len(got_nopos):
                    keys.append("term_attribute_of_wrong_token@after_error_shift")
                    detail = "tree equals a repair translation except for TERM attribute positions"
                else:
                    site = "-"
                    if "7" in hk:
                        site = "back_frontier_advanced"
                    keys.append("tree_matches_no_repair@%s" % site)
                    un = [t for t in got if t not in explained]
                    detail = "K=%d calls=%s unexplained=%s" % (K, calls, [oracle.show(t) for t in un[:2]])
        for k in sorted(set(keys)):
            sh.viol.append((k, "grammar=%r input=[%s] config=%s %s hooks=%s" % (
                ci.g, " ".join(w), sem.cfg_name(c), detail, {x: hk[x][0] for x in hk if x in ("7", "9", "10", "13")}),
                ci.replay(i)))
        if not sent and calls:
            K = sum(cl[4] - cl[2] for cl in calls if cl[4] >= cl[2])
            if K > 0 or len(calls) >= 2:
                sh.nontrivial.add(hash((ci.g.key(), tuple(w), sem.cfg_name(c))))
            if len(calls) >= 2:
                sh.count("two_or_more_recoveries")
            if "10" in hk:
                sh.count("secondary_state_pushed")
            if "7" in hk:
                sh.count("back_frontier_advanced")
            if any(cl[0] == n for cl in calls):
                sh.count("error_at_end_of_input")
    if len(sh.samples) < 2 and not sent:
        sh.samples.append({"grammar": repr(ci.g), "input": w, "configurations": len(ci.configs)})


JUDGES = {"C06": judge_c06, "C07": judge_c07, "C08": judge_c08}

PARAMS = {
    "C06": dict(configs=rec_configs((1, 2, 3, 4, 5), with_off=True), strict=1,
                quick=(16, 40, 10, 16), thorough=(160, 70, 13, 26), floor=300,
                rule="grammars accepted under strict checking (reduced), with and without `error' rules (pool, random "
                     "with error symbols, mutants, random + one added error rule); inputs: non-sentences (edits of "
                     "sentences, random strings, exhaustive short strings) plus two sentences; configurations: recovery "
                     "off x lookahead 0..2 and recovery on x lookahead 0..2 x recovery_match 1..5. Non-trivial = distinct "
                     "(grammar,input) whose first offending token is neither token 0 nor end of input."),
    "C07": dict(configs=rec_configs((1, 2, 3, 5), ones=(1, 0)), strict=None,
                quick=(16, 60, 8, 12), thorough=(160, 60, 9, 18), floor=300,
                rule="accepted grammars with zero or more `error' rules, strict and non-strict; inputs up to 8-9 tokens "
                     "(sentences and non-sentences); recovery on, recovery_match in {1,2,3,5}, lookahead 0..2, one/all "
                     "parses. The tree must be a reference translation of the input repaired by replacing segments of "
                     "total length = total reported ignored tokens by `error' (literal repair first, then full "
                     "enumeration with <= min(4, callbacks+secondary states) segments). Non-trivial = distinct "
                     "(grammar,input,configuration) of non-sentences with K>0 or >=2 callbacks."),
    "C08": dict(configs=rec_configs((1, 2, 3, 4, 5)), strict=None,
                quick=(16, 80, 10, 16), thorough=(160, 70, 13, 26), floor=300,
                rule="accepted grammars with `error' rules; non-sentences; recovery_match 1..5, lookahead 0..2; the first "
                     "callback's ignored count is compared with the minimum over all simple recoveries computed by "
                     "the reference recogniser (back to p with `error' viable, skip to q, match). Non-trivial = distinct "
                     "(grammar,input,recovery_match) whose simple minimum is > 0 or needs going back."),
}


def _worker(args):
    pid, seed, idx, n_grammars, maxlen, n_inputs, variant = args
    P = PARAMS[pid]
    rng = random.Random(seed * 15485863 + idx * 32452843 + int(pid[1:]))
    sh = sem.Shard()
    judge = JUDGES[pid]
    grams = error_grammars(rng, n_grammars, strict=P["strict"])
    cases, refs = [], {}
    cid = 0
    for gi, (name, g, strict) in enumerate(grams):
        ref = refs[gi] = oracle.Ref(g)
        for w in rec_inputs(rng, g, ref, n_inputs, maxlen):
            cases.append((gi, sem.CaseInfo(cid, g, strict, w, P["configs"], name)))
            cid += 1
    if pid in ("C06", "C08"):
        gi = len(grams)
        for _ in range(max(4, n_grammars // 2)):
            g, ins = nested_error_case(rng)
            if oracle.wf(g, 1):
                continue
            refs[gi] = oracle.Ref(g)
            for w in ins:
                cases.append((gi, sem.CaseInfo(cid, g, 1, w, P["configs"], "nested_error")))
                cid += 1
            gi += 1
    tr = sem.run_cases(variant, [c for _, c in cases], None)
    ctx = {}
    for gi, ci in cases:
        case = tr.get(ci.cid)
        if case is None:
            sh.inconclusive += 1
            continue
        if case.status != "ok":
            sem.crash_violation(sh, ci, case)
        judge(sh, ci, case, refs[gi], ctx)
    return sh.result()


def check(pid, tier):
    ck = core.Check(pid, tier)
    P = PARAMS[pid]
    shards, n_grammars, maxlen, n_inputs = P[tier]
    variants = ["asan"] * shards
    for i in range(3, shards, 4 if tier == "thorough" else 8):
        variants[i] = "asan-small"
    jobs = [(pid, ck.seed, i, n_grammars, maxlen, n_inputs, variants[i]) for i in range(shards)]
    res = core.pmap(_worker, jobs)
    counters = sem.merge(ck, res)
    ck.cov["rule"] = P["rule"]
    ck.cov["configurations_per_case"] = len(P["configs"])
    ck.assumptions = ["reference recogniser with `error' as ordinary terminal and the implicit rule $S : error $eof "
                      "(absent only if the start symbol has the rule `error' alone)",
                      "inputs bounded by the tier's maximum length"]
    ck.floor = P["floor"]
    if pid == "C08":
        ck.require("recoveries in which the back frontier advanced", counters.get("back_frontier_advanced", 0), 20)
    if pid == "C07":
        ck.require("recoveries with >=2 callbacks", counters.get("two_or_more_recoveries", 0), 20)
    return ck.finish()
