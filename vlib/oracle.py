"""Reference models, written from the manual (doc/yaep.txt, yaep.h) and the
property statements -- not from yaep.c.

Trees are nested tuples:
   ('A', name, cost, (children...))   abstract node, cost = the rule's own cost
   ('T', code, pos)                   terminal with the position of its token
   'N'                                the NIL node
   'E'                                the ERROR node
"""
import sys
from .gram import NIL, Grammar, Rule

sys.setrecursionlimit(100000)

ERR = "error"
CAP = 3000

# error codes
NO_MEMORY, UNDEFINED, DESC_SYNTAX, FIXED_NAME, REP_TERM_DECL, NEG_TERM_CODE, REP_TERM_CODE, NO_RULES, \
    TERM_IN_LHS, INCORRECT_TRANSL, NEG_COST, INCORRECT_SYMB_NUM, REP_SYMB_NUM, UNACCESSIBLE, \
    NONTERM_DERIVATION, LOOP_NONTERM, INVALID_TOKEN = range(1, 18)


class Analysis:
    """nullable / productive / reachable / loops of an abstract grammar."""

    def __init__(self, g):
        self.g = g
        self.terms = set(g.term_names()) | {ERR}
        self.nts = [s for s in g.nonterms()]
        ntset = set(self.nts)
        rules = g.rules
        nullable = set()
        productive = set(self.terms)
        changed = True
        while changed:
            changed = False
            for r in rules:
                if r.lhs not in nullable and all(s in nullable for s in r.rhs):
                    nullable.add(r.lhs)
                    changed = True
                if r.lhs not in productive and all(s in productive for s in r.rhs):
                    productive.add(r.lhs)
                    changed = True
        self.nullable = nullable
        self.productive = productive
        start = g.start()
        reach = set()
        if start is not None:
            reach.add(start)
            work = [start]
            while work:
                a = work.pop()
                for r in rules:
                    if r.lhs == a:
                        for s in r.rhs:
                            if s not in reach:
                                reach.add(s)
                                if s in ntset:
                                    work.append(s)
        self.reachable = reach
        # loops: A -> B iff A -> alpha B beta with alpha, beta nullable
        edges = {a: set() for a in self.nts}
        for r in rules:
            for i, s in enumerate(r.rhs):
                if s in ntset and all(x in nullable for j, x in enumerate(r.rhs) if j != i):
                    edges.setdefault(r.lhs, set()).add(s)
        self.loop_nts = set()
        for a in self.nts:
            seen = set()
            work = list(edges.get(a, ()))
            while work:
                b = work.pop()
                if b == a:
                    self.loop_nts.add(a)
                    break
                if b in seen:
                    continue
                seen.add(b)
                work.extend(edges.get(b, ()))


def wf(g, strict):
    """Set of documented defect codes present in G (empty set = well-formed)."""
    d = set()
    names = [n for n, c in g.terms]
    codes = [c for n, c in g.terms]
    if any(c < 0 for c in codes):
        d.add(NEG_TERM_CODE)
    if len(set(names)) != len(names):
        d.add(REP_TERM_DECL)
    if len(set(codes)) != len(codes):
        d.add(REP_TERM_CODE)
    tn = set(names)
    if ERR in tn or "$S" in tn or "$eof" in tn:
        d.add(FIXED_NAME)
    if not g.rules:
        d.add(NO_RULES)
    for r in g.rules:
        for s in [r.lhs] + r.rhs:
            if s in ("$S", "$eof"):
                d.add(FIXED_NAME)
        if r.lhs in tn or r.lhs == ERR:
            d.add(TERM_IN_LHS)
        tr = r.transl or []
        if r.anode is None and len(tr) >= 2:
            d.add(INCORRECT_TRANSL)
        if r.anode is not None and r.cost < 0:
            d.add(NEG_COST)
        seen = set()
        for e in tr:
            if e >= len(r.rhs):
                if e != NIL:
                    d.add(INCORRECT_SYMB_NUM)
            elif e in seen:
                d.add(REP_SYMB_NUM)
            else:
                seen.add(e)
    if d:
        # the semantic checks below are only meaningful for a grammar that
        # could be stored at all
        return d
    an = Analysis(g)
    if an.loop_nts:
        d.add(LOOP_NONTERM)
    start = g.start()
    if strict:
        for a in an.nts:
            if a not in an.productive:
                d.add(NONTERM_DERIVATION)
            if a not in an.reachable:
                d.add(UNACCESSIBLE)
    elif start not in an.productive:
        d.add(NONTERM_DERIVATION)
    return d


def wf_all(g, strict):
    """Like wf but every class is evaluated even if structural defects exist
    (used to decide whether a reported code names a defect really present)."""
    d = wf(g, strict)
    try:
        an = Analysis(g)
    except Exception:
        return d
    if g.rules:
        if an.loop_nts:
            d.add(LOOP_NONTERM)
        start = g.start()
        tn = set(g.term_names()) | {ERR}
        if strict:
            for a in an.nts:
                if a not in an.productive:
                    d.add(NONTERM_DERIVATION)
                if a not in an.reachable:
                    d.add(UNACCESSIBLE)
        elif start not in tn and start not in an.productive:
            d.add(NONTERM_DERIVATION)
    return d


class Ref:
    """Reference recogniser / translator for an accepted grammar."""

    def __init__(self, g):
        self.g = g
        self.an = Analysis(g)
        self.terms = set(g.term_names())
        self.code = g.code_of()
        self.name_of_code = {c: n for n, c in g.terms}
        self.start = g.start()
        self.rules = g.rules
        self.by_lhs = {}
        for idx, r in enumerate(g.rules):
            self.by_lhs.setdefault(r.lhs, []).append(idx)
        self.implicit_error_rule = not any(r.rhs == [ERR] for r in g.rules if r.lhs == self.start)
        # rules usable for viable-prefix reasoning: all symbols productive
        self.prod_rules = [i for i, r in enumerate(g.rules) if all(s in self.an.productive for s in r.rhs)
                           and r.lhs in self.an.productive]

    def is_term(self, s):
        return s in self.terms or s == ERR

    # ------------------------------------------------------------ Earley
    def earley_sets(self, toks, stop_at_empty=True):
        """Textbook Earley over productive rules.  toks: terminal names
        (may contain 'error').  Returns list of item sets S[0..k]; stops after
        the first empty set if stop_at_empty."""
        rules = self.rules
        by = {}
        for i in self.prod_rules:
            by.setdefault(rules[i].lhs, []).append(i)
        n = len(toks)
        sets = []
        start_items = {(-1, 0, 0)}   # pseudo rule -1: $S -> . S
        if self.implicit_error_rule:
            start_items.add((-2, 0, 0))   # pseudo rule -2: $S -> . error
        cur = start_items
        for k in range(n + 1):
            # closure
            S = set(cur)
            work = list(S)
            while work:
                ri, dot, org = work.pop()
                rhs = self._rhs(ri)
                if dot < len(rhs):
                    sym = rhs[dot]
                    if not self.is_term(sym):
                        for pi in by.get(sym, ()):
                            it = (pi, 0, k)
                            if it not in S:
                                S.add(it)
                                work.append(it)
                        # completed items of this very set (nullable)
                        for (r2, d2, o2) in list(S):
                            if o2 == k and r2 >= 0 and rules[r2].lhs == sym and d2 == len(rules[r2].rhs):
                                it = (ri, dot + 1, org)
                                if it not in S:
                                    S.add(it)
                                    work.append(it)
                else:
                    if ri < 0:
                        continue
                    lhs = rules[ri].lhs
                    src = S if org == k else sets[org]
                    for (r2, d2, o2) in list(src):
                        rhs2 = self._rhs(r2)
                        if d2 < len(rhs2) and rhs2[d2] == lhs:
                            it = (r2, d2 + 1, o2)
                            if it not in S:
                                S.add(it)
                                work.append(it)
            sets.append(S)
            if k == n:
                break
            t = toks[k]
            nxt = set()
            for (ri, dot, org) in S:
                rhs = self._rhs(ri)
                if dot < len(rhs) and rhs[dot] == t:
                    nxt.add((ri, dot + 1, org))
            if not nxt and stop_at_empty:
                sets.append(set())
                break
            cur = nxt
        return sets

    def _rhs(self, ri):
        if ri == -1:
            return [self.start]
        if ri == -2:
            return [ERR]
        return self.rules[ri].rhs

    def accepts_sets(self, sets, n):
        return len(sets) == n + 1 and ((-1, 1, 0) in sets[n] or (-2, 1, 0) in sets[n])

    def sentence(self, toks):
        s = self.earley_sets(toks)
        return self.accepts_sets(s, len(toks))

    def first_error(self, toks):
        """None if toks is a sentence, else index k of the first token such
        that no sentence starts with toks[:k+1] (k == len(toks): end of input)."""
        s = self.earley_sets(toks)
        n = len(toks)
        if self.accepts_sets(s, n):
            return None
        if len(s) == n + 1 and s[n]:
            return n
        return len(s) - 2

    def viable(self, toks):
        s = self.earley_sets(toks)
        return len(s) == len(toks) + 1 and bool(s[len(toks)])

    # ------------------------------------------- derivations and translations
    def prepare(self, toks):
        """toks: list of (name, origpos) ; origpos None for 'error'."""
        self.toks = toks
        self.n = len(toks)
        self._N = {}
        self._T = {}
        self._inprog = set()
        self.capped = False
        self.cyclic = False
        self._split = {}
        self._derivable()

    def _derivable(self):
        """D[(A,i,j)] for all nonterminals and spans: least fixpoint, by span
        length, with an inner fixpoint for equal spans (nullable and unit
        contexts)."""
        n = self.n
        D = self._D = set()
        names = [t[0] for t in self.toks]
        rules = self.rules
        is_term = self.is_term

        def rule_derives(r, i, j):
            cur = {i}
            for s in r.rhs:
                nxt = set()
                if is_term(s):
                    for p in cur:
                        if p < j and names[p] == s:
                            nxt.add(p + 1)
                else:
                    for p in cur:
                        for q in range(p, j + 1):
                            if (s, p, q) in D:
                                nxt.add(q)
                cur = nxt
                if not cur:
                    return False
            return j in cur

        for L in range(0, n + 1):
            for i in range(0, n - L + 1):
                j = i + L
                changed = True
                while changed:
                    changed = False
                    for r in rules:
                        if (r.lhs, i, j) not in D and rule_derives(r, i, j):
                            D.add((r.lhs, i, j))
                            changed = True

    def _splits(self, ri, k, i, j):
        """All tuples of boundaries (b_k=i, ..., b_n=j) such that rhs[k:]
        derives toks[i:j] symbol by symbol."""
        key = (ri, k, i, j)
        r = self._split.get(key)
        if r is not None:
            return r
        rhs = self.rules[ri].rhs
        out = []
        if k == len(rhs):
            if i == j:
                out.append((i,))
        else:
            s = rhs[k]
            if self.is_term(s):
                if i < j and self.toks[i][0] == s:
                    for rest in self._splits(ri, k + 1, i + 1, j):
                        out.append((i,) + rest)
            else:
                last = (k == len(rhs) - 1)
                for m in ([j] if last else range(i, j + 1)):
                    if (s, i, m) in self._D:
                        for x in self._splits(ri, k + 1, m, j):
                            out.append((i,) + x)
        self._split[key] = out
        return out

    def N(self, a, i, j):
        """number of derivations of toks[i:j] from A, saturated at 2"""
        key = (a, i, j)
        v = self._N.get(key)
        if v is not None:
            return v
        if key in self._inprog:
            self.cyclic = True
            return 0
        self._inprog.add(key)
        tot = 0
        for ri in self.by_lhs.get(a, ()):
            rhs = self.rules[ri].rhs
            for sp in self._splits(ri, 0, i, j):
                c = 1
                for k, s in enumerate(rhs):
                    if not self.is_term(s):
                        c *= self.N(s, sp[k], sp[k + 1])
                        if c >= 2:
                            c = 2
                tot += c
                if tot >= 2:
                    break
            if tot >= 2:
                tot = 2
                break
        self._inprog.discard(key)
        self._N[key] = tot
        return tot

    def _tr_sym(self, s, b, e):
        if s == ERR:
            return ('E',)
        if self.is_term(s):
            return (('T', self.code[s], self.toks[b][1]),)
        return self.T(s, b, e)

    def T(self, a, i, j):
        """tuple of distinct translations of all derivations of toks[i:j] from A"""
        key = (a, i, j)
        v = self._T.get(key)
        if v is not None:
            return v
        if key in self._inprog:
            self.cyclic = True
            return ()
        self._inprog.add(key)
        res = {}
        for ri in self.by_lhs.get(a, ()):
            r = self.rules[ri]
            tr = r.transl or []
            for sp in self._splits(ri, 0, i, j):
                if r.anode is None:
                    if not tr or tr[0] == NIL:
                        res['N'] = 1
                    else:
                        e = tr[0]
                        for t in self._tr_sym(r.rhs[e], sp[e], sp[e + 1]):
                            res[t] = 1
                else:
                    lists = []
                    for e in tr:
                        if e == NIL:
                            lists.append(('N',))
                        else:
                            lists.append(self._tr_sym(r.rhs[e], sp[e], sp[e + 1]))
                    # cartesian product
                    combos = [()]
                    for l in lists:
                        nxt = []
                        for c in combos:
                            for x in l:
                                nxt.append(c + (x,))
                                if len(nxt) > CAP:
                                    break
                            if len(nxt) > CAP:
                                self.capped = True
                                break
                        combos = nxt
                    for c in combos:
                        res[('A', r.anode, r.cost, c)] = 1
                if len(res) > CAP:
                    self.capped = True
                    break
            if len(res) > CAP:
                break
        self._inprog.discard(key)
        out = tuple(res)
        self._T[key] = out
        return out

    def root_translations(self):
        """translations of the whole prepared input from the start symbol"""
        res = list(self.T(self.start, 0, self.n))
        if self.implicit_error_rule and self.n == 1 and self.toks[0][0] == ERR:
            if 'N' not in res:
                res.append('N')
        return res

    def root_count(self):
        c = self.N(self.start, 0, self.n)
        if self.implicit_error_rule and self.n == 1 and self.toks[0][0] == ERR:
            c = min(2, c + 1)
        return c


def tree_cost(t):
    if isinstance(t, tuple) and t[0] == 'A':
        return t[2] + sum(tree_cost(c) for c in t[3])
    return 0


def strip_costs(t):
    if isinstance(t, tuple) and t[0] == 'A':
        return ('A', t[1], tuple(strip_costs(c) for c in t[3]))
    return t


def show(t):
    if t == 'N':
        return "NIL"
    if t == 'E':
        return "ERR"
    if t[0] == 'T':
        return "t%d@%s" % (t[1], t[2])
    if t[0] == 'A':
        return "%s:%d(%s)" % (t[1], t[2], " ".join(show(c) for c in t[3]))
    return repr(t)


# ------------------------------------------------------------ dumped trees
class DagError(Exception):
    pass


def dag_check(nodes, root=0):
    """Structural checks of a dumped tree/DAG: acyclic, ALT only as a list
    whose elements are non-ALT.  Returns list of problem strings."""
    probs = []
    state = {}
    stack = [(root, 0)]
    # iterative DFS for cycles
    while stack:
        nid, phase = stack.pop()
        if phase == 1:
            state[nid] = 2
            continue
        if state.get(nid) == 2:
            continue
        if state.get(nid) == 1:
            probs.append("cycle")
            continue
        state[nid] = 1
        stack.append((nid, 1))
        nd = nodes[nid]
        ch = []
        if nd[0] == 'A':
            ch = nd[3]
        elif nd[0] == 'L':
            if nd[1] < 0:
                probs.append("alt_without_node")
            else:
                if nodes[nd[1]][0] == 'L':
                    probs.append("alt_in_alt")
                ch = [nd[1]]
            if nd[2] >= 0:
                if nodes[nd[2]][0] != 'L':
                    probs.append("alt_next_not_alt")
                ch = ch + [nd[2]]
        elif nd[0] == 'X':
            probs.append("bad_node")
        for c in ch:
            if state.get(c) == 1:
                probs.append("cycle")
            elif state.get(c) != 2:
                stack.append((c, 0))
    return probs


def dag_expand(nodes, root=0, cap=CAP, with_cost_fields=True):
    """Set of trees denoted by a dumped DAG (choice at every ALT occurrence).
    Abstract nodes carry the dumped cost field.  Returns (set, capped)."""
    memo = {}
    capped = [False]

    def alts(nid):
        # nid is an ALT list head or a plain node: list of alternative node ids
        out = []
        while nid >= 0 and nodes[nid][0] == 'L':
            out.append(nodes[nid][1])
            nid = nodes[nid][2]
        return out

    def ex(nid):
        v = memo.get(nid)
        if v is not None:
            return v
        nd = nodes[nid]
        k = nd[0]
        if k == 'N':
            r = ('N',)
        elif k == 'E':
            r = ('E',)
        elif k == 'T':
            r = (('T', nd[1], nd[2]),)
        elif k == 'L':
            s = {}
            for a in alts(nid):
                for t in ex(a):
                    s[t] = 1
                    if len(s) > cap:
                        capped[0] = True
                        break
                if len(s) > cap:
                    break
            r = tuple(s)
        elif k == 'A':
            combos = [()]
            for c in nd[3]:
                sub = ex(c)
                nxt = []
                for x in combos:
                    for y in sub:
                        nxt.append(x + (y,))
                        if len(nxt) > cap:
                            break
                    if len(nxt) > cap:
                        capped[0] = True
                        break
                combos = nxt
            r = tuple(('A', nd[1], nd[2], c) for c in combos)
        else:
            raise DagError("bad node")
        memo[nid] = r
        return r

    res = set(ex(root))
    return res, capped[0]


def uncost(t):
    """Turn a tree whose abstract nodes carry *total* costs (cost flag) into a
    tree with own costs; returns (tree, ok) where ok is False if some node's
    total is smaller than the sum of its children."""
    if not (isinstance(t, tuple) and t[0] == 'A'):
        return t, True
    ok = True
    ch = []
    s = 0
    for c in t[3]:
        cc, o = uncost(c)
        ok = ok and o
        ch.append(cc)
        if isinstance(c, tuple) and c[0] == 'A':
            s += c[2]
    own = t[2] - s
    if own < 0:
        ok = False
    return ('A', t[1], own, tuple(ch)), ok
