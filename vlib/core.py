"""Check plumbing: seeds, tiers, violations, known findings, evidence, exit codes."""
import hashlib, json, os, sys, time, traceback, multiprocessing, re

VERIF = os.path.dirname(os.path.dirname(os.path.abspath(__file__)))
EVID = os.path.join(VERIF, "evidence")
REPLAY = os.path.join(VERIF, "replay")
if os.environ.get("VERIF_SEEDRUN"):
    # runs against a deliberately broken copy: keep the real evidence untouched
    EVID = "/tmp/vf_seed_evidence"
    REPLAY = "/tmp/vf_seed_replay"
KNOWN = os.environ.get("VERIF_KNOWN_FILE") or os.path.join(VERIF, "known_findings.txt")
NCPU = int(os.environ.get("VERIF_JOBS", "16"))


class HarnessError(Exception):
    pass


def seed_from_env():
    try:
        return int(os.environ.get("VERIF_SEED", "1"))
    except ValueError:
        return 1


def load_known():
    """-> dict property -> {key: text}"""
    out = {}
    try:
        fh = open(KNOWN)
    except OSError:
        return out
    with fh:
        for ln in fh:
            ln = ln.strip()
            m = re.match(r"known:\s+property=(\S+)\s+key=(\S+)\s*(.*)", ln)
            if m:
                out.setdefault(m.group(1), {})[m.group(2)] = m.group(3)
    return out


def _winit():
    import faulthandler, signal
    faulthandler.register(signal.SIGUSR1, all_threads=True)


PMAP_TIMEOUT = int(os.environ.get("VERIF_PMAP_TIMEOUT", "7200"))


def pmap(fn, items, jobs=None, timeout=None):
    jobs = jobs or NCPU
    if jobs <= 1 or len(items) <= 1:
        return [fn(x) for x in items]
    ctx = multiprocessing.get_context("fork")
    with ctx.Pool(min(jobs, len(items)), initializer=_winit) as pool:
        r = pool.map_async(fn, items, chunksize=1)
        try:
            return r.get(timeout=timeout or PMAP_TIMEOUT)
        except multiprocessing.TimeoutError:
            raise HarnessError("worker pool did not finish within %d s (inconclusive)" % (timeout or PMAP_TIMEOUT))


class Check:
    def __init__(self, pid, tier, level="exploration"):
        self.pid = pid
        self.tier = tier
        self.seed = seed_from_env()
        self.level = level
        self.t0 = time.time()
        self.violations = []      # (key, text, replay_obj)
        self.cov = {"evaluations": 0, "distinct_nontrivial": 0, "rule": "", "samples": []}
        self.assumptions = []
        self.floor = 2            # minimum distinct_nontrivial for a passing run
        self.inconclusive = 0
        self.extra_floors = []    # (name, value, minimum)

    def violation(self, key, text, replay=None):
        self.violations.append((key, text, replay))

    def merge_violations(self, vs):
        self.violations.extend(vs)

    def sample(self, s, maxn=6):
        if len(self.cov["samples"]) < maxn:
            self.cov["samples"].append(s)

    def require(self, name, value, minimum):
        self.extra_floors.append((name, value, minimum))

    def _write_replay(self, key, text, obj):
        d = os.path.join(REPLAY, self.pid)
        os.makedirs(d, exist_ok=True)
        body = {"property": self.pid, "key": key, "text": text, "seed": self.seed, "tier": self.tier}
        if obj:
            body.update(obj)
        h = hashlib.sha256((key + json.dumps(obj, sort_keys=True, default=str)).encode()).hexdigest()[:12]
        p = os.path.join(d, "%s.json" % h)
        with open(p, "w") as fh:
            json.dump(body, fh, indent=1, default=str)
        return p

    def finish(self):
        known = load_known().get(self.pid, {})
        new = []
        seen_known = {}
        for key, text, obj in self.violations:
            if key in known:
                seen_known.setdefault(key, []).append(text)
            else:
                new.append((key, text, obj))
        wall = time.time() - self.t0
        ev = {"property_id": self.pid, "tier": self.tier, "seed": self.seed, "level": self.level,
              "coverage": self.cov, "assumptions": self.assumptions, "wall_s": round(wall, 2),
              "violations": len(new)}
        ev["coverage"]["inconclusive"] = self.inconclusive
        ev["coverage"]["known_findings_seen"] = {k: len(v) for k, v in seen_known.items()}
        os.makedirs(EVID, exist_ok=True)
        tmp = os.path.join(EVID, ".%s.tmp.%d" % (self.pid, os.getpid()))
        with open(tmp, "w") as fh:
            json.dump(ev, fh, indent=1, default=str)
        os.replace(tmp, os.path.join(EVID, "%s.json" % self.pid))
        for k, texts in sorted(seen_known.items()):
            print("KNOWN-FINDING: property=%s key=%s %s (seen %d times, e.g. %s)" % (
                self.pid, k, known[k], len(texts), texts[0][:200]))
        if new:
            # report distinct keys, first witness each
            firsts = {}
            for key, text, obj in new:
                firsts.setdefault(key, (text, obj, 0))
                t, o, n = firsts[key]
                firsts[key] = (t, o, n + 1)
            for key, (text, obj, n) in sorted(firsts.items()):
                p = self._write_replay(key, text, obj)
                print("VIOLATION property=%s replay=%s key=%s count=%d %s" % (self.pid, p, key, n, text[:300]))
            return 1
        problems = []
        if self.cov["distinct_nontrivial"] < self.floor:
            problems.append("distinct_nontrivial=%d below floor %d" % (self.cov["distinct_nontrivial"], self.floor))
        for name, value, minimum in self.extra_floors:
            if value < minimum:
                problems.append("%s=%s below floor %s" % (name, value, minimum))
        if problems:
            print("INCONCLUSIVE property=%s: %s" % (self.pid, "; ".join(problems)))
            return 2
        print("OK property=%s tier=%s seed=%d evaluations=%d nontrivial=%d wall=%.1fs" % (
            self.pid, self.tier, self.seed, self.cov["evaluations"], self.cov["distinct_nontrivial"], wall))
        return 0


def main_wrap(fn):
    try:
        rc = fn()
    except HarnessError as e:
        print("HARNESS-ERROR: %s" % e)
        rc = 2
    except Exception:
        traceback.print_exc()
        print("HARNESS-ERROR: unexpected exception")
        rc = 2
    sys.exit(rc)
