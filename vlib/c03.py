from . import semx


def check(tier):
    return semx.check("C03", tier)
