from . import semx


def check(tier):
    return semx.check("C04", tier)
