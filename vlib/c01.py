"""C01: recognition is exact."""
import random
from . import core, sem, gen, oracle

RULE = ("grammars: pool / random (<=4 nonterminals, <=3 terminals, <=8 rules) / mutated pool grammars accepted by the "
        "reference well-formedness checker, strict and non-strict; inputs: all strings up to length 5 (while <=400), "
        "sampled sentences and their 1-2 token edits up to the tier's maximum length, the empty input; every "
        "(grammar,input) runs under all 24 configurations lookahead{0,1,2} x one_parse x cost x recovery on a fresh "
        "object. Non-trivial = distinct (grammar,input) pairs whose grammar is recursive or has a nullable "
        "nonterminal and for which both verdicts (sentence / non-sentence) occur among that grammar's inputs.")


def is_recursive_or_nullable(g, an):
    if any(a in an.nullable for a in an.nts):
        return True
    # reachability among nonterminals
    succ = {}
    for r in g.rules:
        for s in r.rhs:
            if s in an.nts:
                succ.setdefault(r.lhs, set()).add(s)
    for a in an.nts:
        seen, work = set(), list(succ.get(a, ()))
        while work:
            b = work.pop()
            if b == a:
                return True
            if b not in seen:
                seen.add(b)
                work.extend(succ.get(b, ()))
    return False


def judge(sh, ci, case, ref):
    w = ci.w
    sent = ref.sentence(w)
    steps = sem.parse_steps(case)
    for i, st in enumerate(steps):
        c = ci.configs[i]
        sh.evals += 1
        sem.closure_check(sh, ci, i, st)
        probs = []
        if st["rc"] != 0:
            probs.append("rc_nonzero")
        else:
            calls = len(st["err"])
            if sent and calls > 0:
                probs.append("syntax_error_on_sentence")
            if not sent and calls == 0:
                probs.append("no_syntax_error_on_nonsentence")
            if not c["rec"]:
                if sent and st.get("root", -1) == -1:
                    probs.append("null_root_for_sentence")
                if not sent and st.get("root", -1) != -1:
                    probs.append("root_for_nonsentence")
                if not sent and calls != 1:
                    probs.append("call_count_not_one")
        for p in probs:
            sh.viol.append((p + "@-", "grammar=%r input=[%s] config=%s expected_sentence=%s rc=%s calls=%s root=%s" % (
                ci.g, " ".join(w), sem.cfg_name(c), sent, st["rc"], len(st["err"]), st.get("root")),
                ci.replay(i, {"expected_sentence": sent})))
    return sent


def _worker(args):
    seed, idx, n_grammars, maxlen, n_inputs, variant = args
    rng = random.Random(seed * 1000003 + idx)
    sh = sem.Shard()
    grams = sem.grammar_stream(rng, n_grammars)
    cases, refs = [], {}
    cid = 0
    for gi, (name, g, strict) in enumerate(grams):
        ins = gen.inputs_for(rng, g, 5, 14, maxlen)
        lim = n_inputs * 2 if getattr(g, "input_gen", None) is not None else n_inputs
        refs[gi] = oracle.Ref(g)
        if len(ins) > lim:
            # with four or more terminals nearly all short strings are non-sentences: keep up to half of the
            # budget for sentences, the rest is a sample of everything else (the empty input always)
            sents = [w for w in ins[1:] if refs[gi].sentence(w)]
            rng.shuffle(sents)
            sents = sents[:lim // 2]
            ss = set(tuple(w) for w in sents)
            rest = [w for w in ins[1:] if tuple(w) not in ss]
            keep = ins[:1] + sents + rng.sample(rest, min(len(rest), lim - 1 - len(sents)))
        else:
            keep = ins
        for w in keep:
            cases.append((gi, sem.CaseInfo(cid, g, strict, w, sem.ALL_CONFIGS, name)))
            cid += 1
    tr = sem.run_cases(variant, [c for _, c in cases], None)
    verdicts = {}
    per_case = []
    for gi, ci in cases:
        case = tr.get(ci.cid)
        if case is None:
            sh.inconclusive += 1
            continue
        if case.status != "ok":
            sem.crash_violation(sh, ci, case)
        sent = judge(sh, ci, case, refs[gi])
        verdicts.setdefault(gi, set()).add(sent)
        per_case.append((gi, ci, sent))
    feats = {}
    for gi, ci, sent in per_case:
        ref = refs[gi]
        f = feats.get(gi)
        if f is None:
            f = feats[gi] = is_recursive_or_nullable(ci.g, ref.an)
            if f:
                sh.count("recursive_or_nullable_grammars")
            if ci.strict == 0 and oracle.wf(ci.g, 1):
                sh.count("nonstrict_only_grammars")
        sh.count("sentences" if sent else "nonsentences")
        if f and len(verdicts[gi]) == 2:
            sh.nontrivial.add(hash((ci.g.key(), tuple(ci.w))))
    if per_case:
        gi, ci, sent = per_case[len(per_case) // 2]
        sh.samples.append({"grammar": repr(ci.g), "strict": ci.strict, "input": ci.w, "sentence": sent,
                           "configurations": 24})
    return sh.result()


def check(tier):
    ck = core.Check("C01", tier)
    if tier == "quick":
        shards, n_grammars, maxlen, n_inputs = 16, 30, 10, 22
        variants = ["asan"] * 14 + ["asan-small"] * 2
    else:
        shards, n_grammars, maxlen, n_inputs = 96, 60, 14, 30
        variants = ["asan"] * 72 + ["asan-small"] * 24
    jobs = [(ck.seed, i, n_grammars, maxlen, n_inputs, variants[i]) for i in range(shards)]
    res = core.pmap(_worker, jobs)
    sem.merge(ck, res)
    ck.cov["rule"] = RULE
    ck.assumptions = ["reference Earley recogniser (vlib/oracle.py, self-tested against brute-force enumeration)",
                      "inputs bounded by the tier's maximum length"]
    ck.floor = 500
    return ck.finish()
