"""C18: parsing work grows near-linearly on deterministic grammars.
Machine-independent counters only: bytes requested from the allocator (renamed
malloc family), hash-table searches+collisions and set statistics (hook H5)."""
import json, math, os, sys
from . import core, sem, build, run, ansic
from .gram import G, hx, emit_define

BASELINE = os.path.join(core.VERIF, "c18_baseline.json")

FAMS = {
    "left_list": (G("L : L a # c (0 1) | a # 0"), lambda n: ["krep %d 97" % n]),
    "sep_list": (G("L : L ',' a # c (0 2) | a # 0"), lambda n: ["k 97", "krep %d 44 97" % (n // 2)]),
    "long_expr": (G("E : T # 0 | E '+' T # p (0 2) ; T : F # 0 | T '*' F # m (0 2) ; F : a # 0 | '(' E ')' # 1"),
                  lambda n: ["k 97", "krep %d 43 97 42 97" % (n // 4)]),
    "stmt_list": (G("P : P S # s (0 1) | S # 0 ; S : x ';' # x | '{' P '}' # 1 | i c S # f (2)"),
                  lambda n: ["krep %d 120 59 105 99 120 59 123 120 59 125" % (n // 10)]),
}
STRUCTURED = ("stmt_list", "ansic")


def sizes(tier):
    top = 64000 if tier == "quick" else 512000
    s, n = [], 1000
    while n <= top:
        s.append(n)
        n *= 2
    return s


def measure_job(args):
    fam, la, n = args
    exe = build.build("vf-plain")
    if fam == "ansic":
        a = ansic.ensure()
        L = ["C 0", "new 0", "set 0 la %d" % la, "desc 0 1 " + hx(a["text"])] + ["kfile " + a["toks"]["test.i"]] * n + \
            ["parse 0 2 n", "free 0"]
        ntok = a["ntoks"]["test.i"] * n
    else:
        g, mk = FAMS[fam]
        L = ["C 0", "new 0", "set 0 la %d" % la] + emit_define(g, 0, 1) + mk(n) + ["parse 0 2 n", "free 0"]
        ntok = None
    c = run.run_text(exe, "\n".join(L) + "\n", case_timeout=900)[0]
    if c.status != "ok":
        return {"fam": fam, "la": la, "n": n, "error": c.key or c.status, "report": c.report[:2000]}
    steps = c.steps
    p = [s for s in steps if s.get("op") == "parse"][0]
    prev = steps[steps.index(p) - 1]
    # bytes requested during the parse = total-bytes counter after parse minus before
    before = [s for s in steps[:steps.index(p)] if "tb" in s][-1]["tb"]
    hk = p.get("hk", {})
    return {"fam": fam, "la": la, "n": n, "ntok": p["ntok"], "rc": p["rc"], "nerr": len(p["err"]),
            "bytes": p["tb"] - before, "searches": hk["25"][4], "collisions": hk["25"][2],
            "sets": hk["20"][4], "cores": hk["21"][4], "dists": hk["22"][4], "triples": hk["23"][4], "goto": hk["24"][4]}


def plan(tier):
    jobs = []
    for fam in FAMS:
        for la in (0, 1, 2):
            for n in sizes(tier):
                jobs.append((fam, la, n))
    for la in (0, 1, 2):
        for k in ((1, 2, 4) if tier == "quick" else (1, 2, 4, 8)):
            jobs.append(("ansic", la, k))
    return jobs


def analyse(rows, baseline, ck):
    """baseline: {"fam/laN": {"<ntok>": {"bytes":..,"probes":..,"sets":..,"cores":..,"goto":..}}} recorded on the
    unchanged tree."""
    groups = {}
    for r in rows:
        groups.setdefault((r["fam"], r["la"]), []).append(r)
    summary = {}
    for (fam, la), rs in sorted(groups.items()):
        rs.sort(key=lambda r: r["ntok"])
        key = "%s/la%d" % (fam, la)
        ctx = {"family": fam, "la": la, "rows": rs}
        for r in rs:
            if r["rc"] != 0 or r["nerr"]:
                ck.violation("workload_not_a_sentence@%s" % fam, "family=%s la=%d n=%d rc=%d errors=%d" % (fam, la, r["n"], r["rc"], r["nerr"]), ctx)
        work = {"bytes": [r["bytes"] for r in rs], "probes": [r["searches"] + r["collisions"] for r in rs]}
        ns = [r["ntok"] for r in rs]
        info = {"tokens": ns}
        for wname, w in work.items():
            if min(w) <= 0:
                # a 32-bit counter of the library wrapped: only astronomically many probes do that
                ck.violation("work_counter_wrapped:%s@%s" % (wname, fam), "family=%s la=%d %s=%s" % (fam, la, wname, w), ctx)
                continue
            ratios = []
            for i in range(1, len(w)):
                step = ns[i] / ns[i - 1]
                ratios.append(round((w[i] / w[i - 1]) / (step / 2.0), 3))   # normalised to a doubling
            expo = math.log(w[-1] / w[0]) / math.log(ns[-1] / ns[0])
            info[wname] = {"per_token": [round(x / n, 2) for x, n in zip(w, ns)], "doubling_ratios": ratios,
                           "exponent": round(expo, 3)}
            lim = 3.0 if wname == "bytes" else 6.5     # probes jump when a table is re-hashed
            for i, rt in enumerate(ratios):
                if rt > lim:
                    ck.violation("superlinear_doubling_step:%s@%s" % (wname, fam),
                                 "family=%s la=%d %s grew x%.2f from %d to %d tokens" % (fam, la, wname, rt, ns[i], ns[i + 1]), ctx)
            if expo > (1.2 if wname == "bytes" else 1.6):
                ck.violation("superlinear_exponent:%s@%s" % (wname, fam), "family=%s la=%d %s exponent %.3f over %d..%d tokens" % (
                    fam, la, wname, expo, ns[0], ns[-1]), ctx)
        b = (baseline or {}).get(key)
        for r in rs:
            br = (b or {}).get(str(r["ntok"]))
            if br is None:
                if baseline is not None:
                    ck.violation("no_baseline_row@%s" % fam, "family=%s la=%d n=%d" % (fam, la, r["ntok"]), ctx)
                continue
            pr = r["searches"] + r["collisions"]
            if r["bytes"] > 2 * br["bytes"]:
                ck.violation("work_doubled:bytes@%s" % fam, "family=%s la=%d n=%d bytes=%d recorded=%d" % (
                    fam, la, r["ntok"], r["bytes"], br["bytes"]), ctx)
            if pr > 2 * br["probes"]:
                ck.violation("work_doubled:probes@%s" % fam, "family=%s la=%d n=%d probes=%d recorded=%d" % (
                    fam, la, r["ntok"], pr, br["probes"]), ctx)
            if r["sets"] > 2 * br["sets"] + 10:
                ck.violation("unique_sets_doubled@%s" % fam, "family=%s la=%d n=%d sets=%d recorded=%d" % (
                    fam, la, r["ntok"], r["sets"], br["sets"]), ctx)
            if r["cores"] > br["cores"] + 2:
                ck.violation("more_set_cores@%s" % fam, "family=%s la=%d n=%d cores=%d recorded=%d" % (
                    fam, la, r["ntok"], r["cores"], br["cores"]), ctx)
            if r["goto"] < 0.5 * br["goto"] - 5:
                ck.violation("goto_cache_reuse_halved@%s" % fam, "family=%s la=%d n=%d goto successes=%d recorded=%d" % (
                    fam, la, r["ntok"], r["goto"], br["goto"]), ctx)
        cores = [r["cores"] for r in rs]
        info["set_cores"] = cores
        info["sets_per_token"] = [round(r["sets"] / r["ntok"], 3) for r in rs]
        info["goto_successes_per_token"] = [round(r["goto"] / r["ntok"], 3) for r in rs]
        if max(cores) != min(cores):
            ck.violation("set_cores_not_constant@%s" % fam, "family=%s la=%d cores=%s" % (fam, la, cores), ctx)
        for r in rs:
            if r["sets"] > r["ntok"] + 10:
                ck.violation("more_unique_sets_than_tokens@%s" % fam, "family=%s la=%d n=%d sets=%d" % (fam, la, r["ntok"], r["sets"]), ctx)
        if fam == "ansic":
            for r in rs:
                if r["goto"] < 0.4 * r["ntok"]:
                    ck.violation("goto_cache_reuse_below_40_percent@%s" % fam, "family=%s la=%d n=%d goto=%d" % (
                        fam, la, r["ntok"], r["goto"]), ctx)
        summary[key] = info
    return summary


def check(tier):
    ck = core.Check("C18", tier)
    jobs = plan(tier)
    rows = core.pmap(measure_job, jobs, jobs=8 if tier == "thorough" else 16)
    bad = [r for r in rows if "error" in r]
    for r in bad:
        ck.violation(r["error"], "family=%s la=%d n=%d" % (r["fam"], r["la"], r["n"]), {"row": r})
    rows = [r for r in rows if "error" not in r]
    try:
        baseline = json.load(open(BASELINE))
    except OSError:
        baseline = None
    summary = analyse(rows, baseline, ck)
    ck.cov["evaluations"] = len(rows)
    ck.cov["distinct_nontrivial"] = len(rows)
    ck.cov["rule"] = ("families: left-recursive list, separated list, one long E/T/F expression, statement list with blocks "
                      "and ifs, and the ANSI C grammar on k concatenated copies of test/test.i; lookahead levels 0,1,2; "
                      "input lengths doubling from 1k to %s tokens (ANSI C: k=1,2,4%s x 75898). Each (family, level, "
                      "length) is one measured parse = one distinct non-trivial case. Verdicts: per doubling step work "
                      "ratio <= 3.5 and whole-range exponent <= 1.35 for allocator bytes and hash probes, work per token "
                      "<= 2x the recorded baseline, number of set cores constant, unique sets <= tokens, and on the "
                      "structured families goto-cache successes >= 40%% of tokens and unique sets <= 0.2/token." % (
                          "64k" if tier == "quick" else "512k", "" if tier == "quick" else ",8"))
    ck.cov["per_family"] = summary
    for k in list(summary)[:3]:
        ck.sample({k: summary[k]})
    ck.assumptions = ["thresholds calibrated on the unchanged tree (c18_baseline.json, regenerated only by hand with "
                      "`python3 -m vlib.c18 calibrate`); a constant-factor slowdown below 2x is invisible",
                      "hash collisions depend slightly on addresses; they enter only as part of probes"]
    ck.floor = 50
    if baseline is None:
        print("HARNESS-ERROR: c18_baseline.json missing")
        return 2
    return ck.finish()


if __name__ == "__main__":
    if sys.argv[1:] == ["calibrate"]:
        rows = core.pmap(measure_job, plan("thorough"), jobs=8)
        class Dummy:
            def violation(self, *a):
                print("note:", a[0], a[1])
        rows = [r for r in rows if "error" not in r]
        summ = analyse(rows, None, Dummy())
        base = {}
        for r in rows:
            base.setdefault("%s/la%d" % (r["fam"], r["la"]), {})[str(r["ntok"])] = {
                "bytes": r["bytes"], "probes": r["searches"] + r["collisions"], "sets": r["sets"], "cores": r["cores"],
                "goto": r["goto"]}
        json.dump(base, open(BASELINE, "w"), indent=1, sort_keys=True)
        print("wrote", BASELINE)
        for k, v in summ.items():
            print(k, v["bytes"]["exponent"], max(v["bytes"]["doubling_ratios"]), v["probes"]["exponent"],
                  max(v["probes"]["doubling_ratios"]), v["set_cores"][-1], v["goto_successes_per_token"][-1], v["sets_per_token"][-1])
