"""ANSI C workload: grammar description extracted from the repository's
compare_parsers/test_yaep.c, token codes of test.i / test1.i produced with the
repository's flex lexer (test/ansic.l)."""
import hashlib, os, re, subprocess, tempfile, shutil
from . import build

TEST = os.path.join(build.REPO, "test")
OUT = os.path.join(build.BUILD_ROOT, "ansic")


def _extract_description():
    src = open(os.path.join(TEST, "compare_parsers", "test_yaep.c"), errors="replace").read()
    i = src.index("static const char *description =")
    j = src.index(";\n", i)
    body = src[i:j]
    parts = re.findall(r'"((?:[^"\\]|\\.)*)"', body)
    text = "".join(parts)
    text = text.replace("\\n", "\n").replace("\\t", "\t").replace('\\"', '"').replace("\\'", "'").replace("\\\\", "\\")
    return text


def ensure():
    """returns dict(desc=path, toks={'test.i': path, 'test1.i': path}, ntoks={...})"""
    srcs = [os.path.join(TEST, "ansic.l"), os.path.join(TEST, "ansic.h"), os.path.join(TEST, "test.i"),
            os.path.join(TEST, "compare_parsers", "test1.i"), os.path.join(TEST, "compare_parsers", "test_yaep.c")]
    h = hashlib.sha256()
    for p in srcs:
        h.update(open(p, "rb").read())
    d = os.path.join(OUT, h.hexdigest()[:16])
    res = {"desc": os.path.join(d, "desc.txt"), "toks": {"test.i": os.path.join(d, "test.i.tok"),
                                                         "test1.i": os.path.join(d, "test1.i.tok")}}
    if not os.path.exists(os.path.join(d, "done")):
        os.makedirs(OUT, exist_ok=True)
        tmp = tempfile.mkdtemp(prefix="tmp", dir=OUT)
        try:
            subprocess.run(["flex", "-o", os.path.join(tmp, "ansic.c"), os.path.join(TEST, "ansic.l")], check=True,
                           stdout=subprocess.DEVNULL, stderr=subprocess.DEVNULL)
            open(os.path.join(tmp, "tok.c"), "w").write(
                '#include <stdio.h>\nint column = 0; int line = 1;\n#include "ansic.c"\n'
                'int main (void) { int c; while ((c = yylex ()) > 0) printf ("%d\\n", c); return 0; }\n')
            subprocess.run(["gcc", "-w", "-O1", "-I" + tmp, "-I" + TEST, os.path.join(tmp, "tok.c"), "-o",
                            os.path.join(tmp, "tok")], check=True)
            for name, path in (("test.i", os.path.join(TEST, "test.i")),
                               ("test1.i", os.path.join(TEST, "compare_parsers", "test1.i"))):
                with open(path, "rb") as fin, open(os.path.join(tmp, name + ".tok"), "wb") as fout:
                    subprocess.run([os.path.join(tmp, "tok")], stdin=fin, stdout=fout, check=True)
            open(os.path.join(tmp, "desc.txt"), "w").write(_extract_description())
            for f in ("ansic.c", "tok.c", "tok"):
                os.unlink(os.path.join(tmp, f))
            open(os.path.join(tmp, "done"), "w").write("ok\n")
            try:
                os.rename(tmp, d)
            except OSError:
                shutil.rmtree(tmp, ignore_errors=True)
        except BaseException:
            shutil.rmtree(tmp, ignore_errors=True)
            raise
    res["ntoks"] = {k: sum(1 for _ in open(p)) for k, p in res["toks"].items()}
    res["text"] = open(res["desc"]).read()
    return res


if __name__ == "__main__":
    r = ensure()
    print(r["ntoks"], len(r["text"]))
