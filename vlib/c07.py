from . import recx


def check(tier):
    return recx.check("C07", tier)
