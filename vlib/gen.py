"""Generators: pool grammars, random grammars, mutations, translation specs, inputs."""
import itertools, random
from .gram import Grammar, Rule, G, NIL
from . import oracle

T_NAMES = ["a", "b", "c", "d"]
NT_NAMES = ["S", "A", "B", "C", "D"]


# --------------------------------------------------------------------- pool
POOL_TEXT = {
    "leftrec_list": "L : L a # cons (0 1) | a # 0",
    "rightrec_list": "L : a L # cons (0 1) | a # one (0)",
    "middle_rec": "S : a S b # n (1) | # e",
    "hidden_left": "S : A S b # s (0 1) | a # 0 ; A : # z | c # 0",
    "nullable_chain": "S : A B C # s (0 1 2) ; A : a # 0 | # na ; B : b # 0 | # nb ; C : c # 0 | # nc",
    "unit_chain": "S : A # 0 ; A : B # 0 ; B : C # 0 ; C : a # leaf (0) | C a # app (0 1)",
    "expr_amb": "E : E '+' E # add 1 (0 2) | E '*' E # mul 2 (0 2) | a # 0",
    "dangling_else": "S : i S # if1 1 (1) | i S e S # if2 2 (1 3) | x # 0",
    "palindrome": "P : a P a # pa (1) | b P b # pb (1) | a # 0 | b # 0 | # pe",
    "ss_amb": "S : S S # cat (0 1) | a # 0",
    "ss_eps": "S : S S a # c (0 1) | b # 0 | # e",
    "sep_list": "L : L ',' a # c (0 2) | a # 0",
    "etf": "E : T # 0 | E '+' T # plus (0 2) ; T : F # 0 | T '*' F # mult (0 2) ; F : a # 0 | '(' E ')' # 1",
    "stmt_error": "P : P S # seq (0 1) | S # 0 ; S : a ';' # st (0) | error ';' # bad",
    "expr_error": "E : E '+' T # plus (0 2) | T # 0 ; T : a # 0 | '(' E ')' # 1 | '(' error ')' # err",
    "start_error": "S : error a # se | a b # ab (0 1)",
    "two_error": "S : A b # s (0) ; A : error a # e1 | error # e2 | a # 0",
    "perm": "S : a b c # p (2 0 1) | a b # q (1 - 0)",
    "passthru_nullable": "S : A b # 0 | A c # 1 ; A : a # 0 | # na",
    "nil_rule": "S : a A b # - ; A : a # 0 |",
    "empty_node": "S : a A # top (1) ; A : b # leaf | # e2",
    "share": "S : X c # p 1 (0) | Y c # q 1 (0) ; X : E # x 10 (0) ; Y : E # y 1 (0) ; E : a # e1 5 (0) | a # e2 1 (0)",
    "cost_tie": "S : A # 0 | B # 0 ; A : a # n1 3 (0) ; B : a # n2 3 (0)",
    "test45": "E : V '+' V # add 1 (0 2) | V '*' V # mult 1 (0 2) | V '+' '(' V '*' V ')' # madd 1 (0 3 5) | '(' V '*' V ')' '+' V # madd 1 (6 1 3) ; V : a # 0 | '(' E ')' # 1",
    "d10": "S : A B # s (0) ; A : a # x (0) | a a # y (0 1) ; B : a | a a",
    "d10b": "S : a a A # 2 ; A : B a # 0 | a B # r5 (0 1) ; B : # r2 | a # 0 | a A B # r4 (2 1)",
    "d21": "S : b b # - | # - | b S b # 0 | S b a a # r3 | S S a # r4 | S b # r5",
    "deep_amb": "S : a S # w (1) | a T # v (1) | a # 0 ; T : a T # w (1) | a # 0",
    "null_amb": "S : A A # s (0 1) ; A : a # 0 | # e ",
    "span_amb": "S : A B # s (0 1) ; A : a # x1 | a a # x2 ; B : a # y1 | a a # y2",
    "nonstrict_dead": "S : a S # n (1) | b # 0 ; U : U a | c",
    "brackets": "S : S '(' S ')' # n (0 2) | # e",
    "unit_ctx": "S : C z # sz (0) | B y # sy (0) | A x # sx (0) ; A : a # 0 ; B : A # 0 ; C : B # 0",
    "unit_ctx_null": "S : C N z # sz (0) | B N y # sy (0) | A N x # sx (0) ; N : # e | n # 0 ; A : a # 0 ; B : A # 0 ; C : B # 0",
    "ctx_nest": "S : Y b # sb (0) | X a # sa (0) | '(' S ')' # par (1) ; X : x # 0 ; Y : X # yx (0)",
    "opt_chain": "S : a O b # seq (0 1 2) ; O : L # 0 ; L : # nil | L x # cons (0 1)",
    "pass_eps": "S : A A # 1 ; A : a # 0 | # e",
    "pass_eps2": "S : B # 0 ; B : C D # 1 ; C : c # 0 | # ce ; D : d # dd (0) | # de",
    "pass_eps3": "S : a B C # top (1 2) ; B : C C # 0 ; C : # ce 2 | c # 0 | B b # bb (0)",
    "overlap_nullable": "S : b A y # s1 (1) | A z # s2 (0) ; A : B N c # a (0 1) ; B : b # b1 | b b # b2 ; N : # ne | n # 0",
    "stmt_chain_error": "P : P S # seq (0 1) | S # 0 ; S : p N2 ';' # top (1) | q N1 ';' ';' # top2 (1) | error # bad ; N2 : a # lit (0) | '-' N1 # n2 (1) ; N1 : '-' N0 # n1 (1) ; N0 : a # id (0)",
    "twin_pass": "S : a B B b # x (1 2) ; B : C # 0 ; C : # e | c # f (0)",
    "twin_pass2": "S : B B B # x (2 0 1) ; B : C # 0 | b B # bb (1) ; C : D # 0 ; D : # e 2 | d # f (0)",
    "if_stmt": "P : P T # seq (0 1) | T # 0 ; T : i c T # if (2) | i c T e T # ife (2 4) | x ';' # x | '{' P '}' # 1",
}


def pool():
    out = []
    for name, text in POOL_TEXT.items():
        out.append((name, G(text)))
    return out


# ------------------------------------------------------------------- random
def random_transl(rng, rule_rhs, allow_anode=True):
    n = len(rule_rhs)
    anode, cost, transl = None, 0, None
    r = rng.random()
    if allow_anode and r < 0.6:
        anode = rng.choice(["n", "m", "p", "q", "r%d" % rng.randrange(10)])
        if rng.random() < 0.03:
            anode = ""
        cost = rng.choice([0, 0, 1, 1, 2, 3, 5, 9])
        k = rng.randrange(0, n + 2)
        idx = list(range(n))
        rng.shuffle(idx)
        transl = idx[:min(k, n)]
        # nil padding
        while rng.random() < 0.25 and len(transl) < n + 2:
            transl.insert(rng.randrange(len(transl) + 1), NIL)
        if not transl and rng.random() < 0.5:
            transl = None
    else:
        r2 = rng.random()
        if r2 < 0.55 and n > 0:
            transl = [rng.randrange(n)]
        elif r2 < 0.7:
            transl = [NIL]
        elif r2 < 0.85:
            transl = []
        else:
            transl = None
    return anode, cost, transl


def random_grammar(rng, max_nts=4, max_terms=3, max_rules=8, error_p=0.0, full_transl=False):
    nnt = rng.randrange(1, max_nts + 1)
    nt = NT_NAMES[:nnt]
    nterm = rng.randrange(1, max_terms + 1)
    terms = T_NAMES[:nterm]
    nrules = rng.randrange(1, max_rules + 1)
    rules = []
    for i in range(nrules):
        lhs = nt[0] if i == 0 else rng.choice(nt)
        ln = rng.choice([0, 1, 1, 2, 2, 2, 3, 3, 4])
        rhs = []
        for _ in range(ln):
            x = rng.random()
            if error_p and x < error_p:
                rhs.append("error")
            elif x < 0.5:
                rhs.append(rng.choice(terms))
            else:
                rhs.append(rng.choice(nt))
        if full_transl:
            anode, cost, transl = "r%d" % i, rng.choice([0, 1, 2, 3]), list(range(len(rhs)))
        else:
            anode, cost, transl = random_transl(rng, rhs)
        rules.append(Rule(lhs, rhs, anode, cost, transl))
    return Grammar([(t, ord(t)) for t in terms], rules)


def context_chain_grammar(rng):
    """Alternatives of the start symbol that differ only in their right context, reached through chains of unit
    rules of different lengths (dynamic lookahead has to propagate contexts backwards through the chain), with
    optional nullable tails and nesting."""
    k = rng.randrange(2, 5)
    tails = ["t%d" % i for i in range(k)]
    terms = [("a", 97)] + [(t, 110 + i) for i, t in enumerate(tails)]
    if rng.random() < 0.4:
        # two alternatives with the same right context: an ambiguity that exists only if both chains survive
        i, j = rng.sample(range(k), 2)
        tails[j] = tails[i]
        terms = [("a", 97)] + [(t, 110 + int(t[1:])) for t in sorted(set(tails))]
    rules = []
    order = list(range(k))
    rng.shuffle(order)
    nullable_tail = rng.random() < 0.4
    for i in order:
        rhs = ["U%d" % i] + (["N"] if nullable_tail else []) + [tails[i]]
        rules.append(Rule("S", rhs, "s%d" % i, rng.randrange(3), [0]))
    if rng.random() < 0.5:
        terms += [("'('", 40), ("')'", 41)]
        rules.append(Rule("S", ["'('", "S", "')'"], "par", 1, [1]))
    if rng.random() < 0.3:
        rules.append(Rule("S", ["S", "S"], "cat", 1, [0, 1]))
    if nullable_tail:
        terms.append(("n", 98))
        rules.append(Rule("N", [], "e", 0, []))
        rules.append(Rule("N", ["n"], None, 0, [0]))
    chain = list(range(k))
    rng.shuffle(chain)
    # U_chain[0] : a ; U_chain[j] : U_chain[j-1]
    defs = []
    for j, i in enumerate(chain):
        if j == 0 or rng.random() < 0.25:
            defs.append(Rule("U%d" % i, ["a"], None, 0, [0]))
        else:
            defs.append(Rule("U%d" % i, ["U%d" % chain[j - 1]], "u" if rng.random() < 0.3 else None, 0, [0]))
    rng.shuffle(defs)
    # the start rule must come first
    return Grammar(terms, rules[:1] + defs[: len(defs) // 2] + rules[1:] + defs[len(defs) // 2:])


def item_list_grammar(rng):
    """A list (left or right recursive) of short terminated items; the item kinds share body nonterminals, some kinds
    are ambiguous (same strings through a unit rule or under two node names), bodies may overlap in length
    (`b' | `b b') and be followed by a nullable symbol.  Comes with its own input generator: sequences of 2-5 items
    with repetitions, i.e. inputs made of repeated fragments -- what makes Earley sets and goto-cache entries
    recur -- sometimes with one edit."""
    leads = ["x", "y", "z"][:rng.randrange(2, 4)]
    terms = [(l, ord(l)) for l in leads] + [("b", 98), ("c", 99), ("';'", 59)]
    use_n = rng.random() < 0.5
    if use_n:
        terms.append(("n", 110))
    rules = []
    if rng.random() < 0.5:
        rules += [Rule("L", ["I"], None, 0, [0]), Rule("L", ["I", "L"], "l", 1, [0, 1])]
    else:
        rules += [Rule("L", ["L", "I"], "l", 1, [0, 1]), Rule("L", ["I"], None, 0, [0])]
    used = set()
    main = rng.choice(["X", "X", "Y", "B"])      # most kinds share this body and differ in what follows it
    for i, l in enumerate(leads):
        nalt = 2 if rng.random() < 0.5 else 1
        r0 = rng.random()
        if nalt == 2 and r0 < 0.45:
            bodies = ["X", "Y"]                  # the same strings directly and through the unit rule Y : X
        elif nalt == 1 and r0 < 0.6:
            bodies = [main]
        elif r0 < 0.8:
            bodies = rng.sample(["X", "Y", "B"], nalt)
        else:
            bodies = [rng.choice(["X", "Y", "B"])] * nalt
        tail = (["N"] if use_n and rng.random() < 0.6 else [])
        if tail and rng.random() < 0.4:
            tail.append("M")                     # two consecutive nullable symbols after a body of variable length
        tail += ["c"] if rng.random() < 0.3 else []
        lead = [l] if rng.random() < 0.85 else []
        for a, b in enumerate(bodies):
            used.add(b)
            rhs = lead + [b] + tail + ["';'"]
            tr = [j for j, x in enumerate(rhs) if x in ("X", "Y", "B", "N", "M")]
            rules.append(Rule("I", rhs, "i%d%s" % (i, "ab"[a]), rng.randrange(4), tr))
        for x in ("N", "M"):
            if x in tail:
                used.add(x)
    if "Y" in used:
        ya = "yx" if rng.random() < 0.7 else None
        rules.append(Rule("Y", ["X"], ya, 1 if ya else 0, [0]))
        used.add("X")
    if "X" in used:
        rules.append(Rule("X", ["b", "c"], "xb", 1, [0, 1]))
        if rng.random() < 0.4:
            rules.append(Rule("X", ["b"], None, 0, [0]))
    if "B" in used:
        rules.append(Rule("B", ["b"], "b1", 1, []))
        rules.append(Rule("B", ["b", "b"], "b2", 2, []))
    if "N" in used:
        rules.append(Rule("N", [], "ne", 0, []))
        rules.append(Rule("N", ["n"], None, 0, [0]))
    if "M" in used:
        rules.append(Rule("M", [], "me", 0, []))
        if rng.random() < 0.5:
            rules.append(Rule("M", ["n"], "mn", 1, [0]))
    g = Grammar(terms, rules)
    by_lhs = {}
    for r in rules:
        by_lhs.setdefault(r.lhs, []).append(r)
    tnames = [t for t, _ in terms]

    def expand(r, sym):
        if sym not in by_lhs:
            return [sym]
        out = []
        for x in r.choice(by_lhs[sym]).rhs:
            out += expand(r, x)
        return out

    queue = []

    def input_gen(r):
        # first, systematically: all sequences of three items over two item strings, then of four over two or
        # three (which item follows which, and how often, decides what is found again in the parser's caches)
        if not queue and not getattr(input_gen, "drained", False):
            items = []
            for _ in range(12):
                it = expand(r, "I")
                if it not in items:
                    items.append(it)
            r.shuffle(items)
            two = items[:2] if len(items) >= 2 else items * 2
            seqs = [list(x) for x in itertools.product(two, repeat=3)]
            more = [list(x) for x in itertools.product(items[:3], repeat=4)]
            r.shuffle(more)
            seqs += more[:16]
            r.shuffle(seqs)
            for sq in seqs:
                queue.append([t for it in sq for t in it][:16])
            input_gen.drained = True
        if queue:
            w = queue.pop()
        else:
            kinds = [expand(r, "I") for _ in range(r.randrange(1, 3))]
            w = []
            for _ in range(r.randrange(2, 6)):
                w += r.choice(kinds) if r.random() < 0.8 else expand(r, "I")
        if r.random() < 0.2:
            w = edits(r, w, tnames, 1)
        return w[:16]
    g.input_gen = input_gen
    return g


def overlap_grammar(rng):
    """Spans that overlap: over a one- or two-letter alphabet, a list of elements E, each an `A' at one of several
    offsets, A : X N M with a body X of variable length whose last token may as well be the (nullable) N, followed
    by a second nullable symbol.  The same dotted rules then sit in one Earley set with several origins, and set
    cores recur along the list with different distance vectors."""
    two = rng.random() < 0.5

    def t():
        return "a" if not two or rng.random() < 0.65 else "b"
    terms = [("a", 97)] + ([("b", 98)] if two else [])
    rules = []
    if rng.random() < 0.6:
        rules += [Rule("S", ["S", "E"], "l", 1, [0, 1]), Rule("S", ["E"], None, 0, [0])]
    else:
        rules += [Rule("S", ["E"], None, 0, [0]), Rule("S", ["E", "S"], "l", 1, [0, 1])]
    ealts = [["A"], [t(), "A"], [t(), t(), "A"], ["A", t()], [t(), "A", t()]]
    rng.shuffle(ealts)
    for i, rhs in enumerate(ealts[:rng.randrange(2, 4)]):
        rules.append(Rule("E", rhs, "e%d" % i, rng.randrange(3), [rhs.index("A")]))
    tail = rng.choice([["N", "M"], ["N", "M"], ["N"], ["M", "N"], ["N", "N"]])
    arhs = ["X"] + tail + ([t()] if rng.random() < 0.25 else [])
    rules.append(Rule("A", arhs, "a", 1, [j for j, x in enumerate(arhs) if x in ("X", "N", "M")]))
    xalts = [[t()], [t(), t()], ["Y", t()], [t(), "Y"]]
    rng.shuffle(xalts)
    nx = rng.randrange(2, 4)
    for i, rhs in enumerate(xalts[:nx]):
        rules.append(Rule("X", rhs, "x%d" % i, rng.randrange(3), [j for j, x in enumerate(rhs) if x == "Y"]))
    if any("Y" in r for r in xalts[:nx]):
        rules.append(Rule("Y", [t()], "y1", 1, []))
        if rng.random() < 0.5:
            rules.append(Rule("Y", [t()], "y2", 2, []))
    rules.append(Rule("N", [t()], "n", 1, []))
    rules.append(Rule("N", [], "ne" if rng.random() < 0.5 else None, 0, [] if True else None))
    if "M" in tail:
        rules.append(Rule("M", [], "me" if rng.random() < 0.5 else None, 0, []))
        if rng.random() < 0.4:
            rules.append(Rule("M", [t()], "m", 1, []))
    return Grammar(terms, rules)


def tail_chain_grammar(rng, listed_p=0.4):
    """A chain of tail inclusions  Nk : [prefix] N(k-1), ..., N1 : N0 | t, N0 : t  below a start rule that puts a
    terminal behind Nk, written bottom-up, top-down or shuffled, with an ambiguity somewhere in the chain: what may
    follow the deepest nonterminal is known only after FOLLOW has travelled down the whole chain, against the order
    in which the nonterminals were introduced when the grammar is written bottom-up."""
    depth = rng.randrange(3, 7)
    pre = ["'-'", "'!'", "'~'"]
    terms = [("p", 112), ("a", 97), ("';'", 59)] + [(x, ord(x[1])) for x in pre]
    top = Rule("S", (["p"] if rng.random() < 0.7 else []) + ["N%d" % depth, "';'"], "top", 1, None)
    top.transl = [top.rhs.index("N%d" % depth)]
    if rng.random() < 0.4:
        terms.append(("q", 113))
        extra_top = Rule("S", ["q", "N%d" % rng.randrange(depth + 1), "';'", "';'"], "top2", 1, [1])
    else:
        extra_top = None
    chain = [Rule("N0", ["a"], "id", 1, [0])]
    amb_at = rng.randrange(1, depth + 1)
    for i in range(1, depth + 1):
        prefix = [rng.choice(pre)] if rng.random() < 0.35 else []
        rhs = prefix + ["N%d" % (i - 1)]
        if prefix or rng.random() < 0.3:
            chain.append(Rule("N%d" % i, rhs, "n%d" % i, rng.randrange(3), [len(rhs) - 1]))
        else:
            chain.append(Rule("N%d" % i, rhs, None, 0, [0]))
        if i == amb_at:
            # a second way to derive what the lower part derives
            chain.append(Rule("N%d" % i, ["a"], "lit%d" % i, rng.randrange(3), [0]))
        elif rng.random() < 0.2:
            chain.append(Rule("N%d" % i, ["a", "a"], "two%d" % i, 1, [0, 1]))
    order = rng.random()
    if order < 0.5:
        body = chain                              # bottom-up
    elif order < 0.75:
        body = chain[::-1]                        # top-down
    else:
        body = chain[:]
        rng.shuffle(body)
    rules = [top] + ([extra_top] if extra_top else []) + body
    listed = rng.random() < listed_p
    if listed:
        # a list of such statements: something follows a statement (and a recovery has something to resume with)
        rules = [Rule("P", ["P", "S"], "seq", 1, [0, 1]), Rule("P", ["S"], None, 0, [0])] + rules
    used = set(x for r in rules for x in r.rhs)
    g = Grammar([t for t in terms if t[0] in used], rules)
    if listed:
        by_lhs = {}
        for r in rules:
            by_lhs.setdefault(r.lhs, []).append(r)
        tnames = g.term_names()

        def expand(r, sym):
            if sym not in by_lhs:
                return [sym]
            out = []
            for x in r.choice(by_lhs[sym]).rhs:
                out += expand(r, x)
            return out

        def input_gen(r):
            w = []
            for _ in range(r.randrange(2, 5)):
                w += expand(r, "S")
            if r.random() < 0.4 and w:
                k = r.randrange(min(4, len(w)))          # an error early, valid statements behind it
                w = w[:k] + edits(r, w[k:k + 1], tnames, 1) + w[k + 1:]
            return w[:16]
        g.input_gen = input_gen
    return g


def accepted_random_grammar(rng, strict=None, tries=200, **kw):
    """Random grammar without documented defects; returns (g, strict)."""
    for _ in range(tries):
        g = random_grammar(rng, **kw)
        s = rng.choice([0, 1]) if strict is None else strict
        if not oracle.wf(g, s):
            return g, s
        if strict is None and not oracle.wf(g, 0):
            return g, 0
    return G("S : a # 0"), 1


def mutate(rng, g):
    rules = [Rule(r.lhs, list(r.rhs), r.anode, r.cost, None if r.transl is None else list(r.transl)) for r in g.rules]
    terms = list(g.terms)
    tn = [t[0] for t in terms]
    nts = g.nonterms()
    op = rng.randrange(6)
    if op == 0 and rules:
        r = rng.choice(rules)
        rules.append(Rule(r.lhs, list(r.rhs), r.anode, r.cost, r.transl))
    elif op == 1 and len(rules) > 1:
        del rules[rng.randrange(1, len(rules))]
    elif op == 2 and nts:
        a = rng.choice(nts)
        an, c, t = random_transl(rng, [])
        rules.append(Rule(a, [], an, c, t))
    elif op == 3 and rules:
        r = rng.choice(rules)
        if r.rhs:
            i = rng.randrange(len(r.rhs))
            r.rhs[i] = rng.choice(tn + nts)
    elif op == 4 and rules:
        r = rng.choice(rules)
        pos = rng.randrange(len(r.rhs) + 1)
        r.rhs.insert(pos, rng.choice(tn + nts))
        if r.transl:
            r.transl = [x + 1 if (x != NIL and x >= pos) else x for x in r.transl]
    else:
        r = rng.choice(rules)
        r.anode, r.cost, r.transl = random_transl(rng, r.rhs)
    return Grammar(terms, rules)


# ------------------------------------------------------------------- inputs
def all_strings(terms, maxlen):
    for l in range(maxlen + 1):
        for tup in itertools.product(terms, repeat=l):
            yield list(tup)


def min_lengths(g):
    INF = 10 ** 9
    tn = set(g.term_names()) | {"error"}
    ml = {}
    changed = True
    while changed:
        changed = False
        for r in g.rules:
            tot = 0
            for s in r.rhs:
                tot += 1 if s in tn else ml.get(s, INF)
                if tot >= INF:
                    break
            if tot < ml.get(r.lhs, INF):
                ml[r.lhs] = tot
                changed = True
    return ml


def sample_sentence(rng, g, maxlen, ml=None, allow_error=False):
    """random derivation bounded by maxlen tokens; returns list of terminal
    names or None."""
    if ml is None:
        ml = min_lengths(g)
    INF = 10 ** 9
    tn = set(g.term_names()) | {"error"}
    by = {}
    for r in g.rules:
        by.setdefault(r.lhs, []).append(r)

    def need(rhs):
        return sum(1 if s in tn else ml.get(s, INF) for s in rhs)

    out = []
    steps = [0]

    def go(sym, budget, depth):
        steps[0] += 1
        if steps[0] > 3000:
            return False
        if sym in tn:
            if sym == "error" and not allow_error:
                return False
            out.append(sym)
            return True
        cands = [r for r in by.get(sym, []) if need(r.rhs) <= budget and (allow_error or "error" not in r.rhs)]
        if not cands:
            return False
        if depth > 40:
            cands.sort(key=lambda r: need(r.rhs))
            cands = cands[:1]
        r = rng.choice(cands)
        rest = need(r.rhs)
        b = budget
        for s in r.rhs:
            m = 1 if s in tn else ml.get(s, INF)
            rest -= m
            # give this symbol a random share of the slack
            slack = b - rest - m
            give = m + (rng.randrange(slack + 1) if slack > 0 else 0)
            before = len(out)
            if not go(s, give, depth + 1):
                return False
            b -= len(out) - before
        return True

    if g.start() is None or ml.get(g.start(), INF) > maxlen:
        return None
    if go(g.start(), maxlen, 0):
        return out
    return None


def edits(rng, s, terms, n=1):
    s = list(s)
    for _ in range(n):
        op = rng.randrange(3)
        if op == 0 and s:
            del s[rng.randrange(len(s))]
        elif op == 1:
            s.insert(rng.randrange(len(s) + 1), rng.choice(terms))
        elif s:
            s[rng.randrange(len(s))] = rng.choice(terms)
    return s


def inputs_for(rng, g, n_exhaustive_len, n_samples, maxlen):
    """A list of distinct token-name lists for grammar g."""
    terms = g.term_names()
    seen = set()
    out = []

    def add(w):
        k = tuple(w)
        if k not in seen and len(w) <= maxlen:
            seen.add(k)
            out.append(list(w))

    if terms:
        L = n_exhaustive_len
        while L > 0 and sum(len(terms) ** i for i in range(L + 1)) > 400:
            L -= 1
        for w in all_strings(terms, L):
            add(w)
    else:
        add([])
    ml = min_lengths(g)
    for _ in range(n_samples):
        s = sample_sentence(rng, g, rng.randrange(1, maxlen + 1), ml)
        if s is not None:
            add(s)
            if terms:
                add(edits(rng, s, terms, 1))
                if rng.random() < 0.3:
                    add(edits(rng, s, terms, 2))
        elif terms:
            add([rng.choice(terms) for _ in range(rng.randrange(0, maxlen + 1))])
    ig = getattr(g, "input_gen", None)
    if ig is not None:
        # the grammar's own generator (repeated fragments); these may be longer than maxlen (at most 16 tokens)
        for _ in range(max(4, 3 * n_samples)):
            w = ig(rng)
            k = tuple(w)
            if k not in seen and len(w) <= 16:
                seen.add(k)
                out.append(list(w))
    return out
