"""C19: containers keep their abstract contents (random op sequences vs. models)."""
import json, os, subprocess, shutil
from . import build, core, run


def _shard(args):
    variant, exe, seed, first, n, max_ops = args
    d = run.scratch_dir()
    res = {"variant": variant, "seqs": 0, "viols": [], "summ": [], "crashes": []}
    try:
        start = first
        end = first + n
        guard = 0
        while start < end and guard < 50:
            guard += 1
            outp = os.path.join(d, "o")
            if os.path.exists(outp):
                os.unlink(outp)
            env = dict(os.environ)
            env["ASAN_OPTIONS"] = run.ASAN_OPTS
            env["UBSAN_OPTIONS"] = run.UBSAN_OPTS
            try:
                p = subprocess.run([exe, str(seed), str(start), str(end - start), str(max_ops), outp],
                                   stdout=subprocess.DEVNULL, stderr=subprocess.PIPE, env=env, timeout=1800)
                rc, err = p.returncode, p.stderr.decode("latin-1")
                to = False
            except subprocess.TimeoutExpired:
                rc, err, to = -9, "", True
            last = None
            done = False
            for ln in open(outp, errors="replace") if os.path.exists(outp) else []:
                try:
                    o = json.loads(ln)
                except ValueError:
                    continue
                if "done" in o:
                    res["summ"].append(o)
                    done = True
                elif "s" in o:
                    last = o["s"]
                elif "viol" in o:
                    res["viols"].append(o)
            if done:
                res["seqs"] += end - start
                break
            if last is None:
                raise core.HarnessError("container harness failed to start: rc=%s %s" % (rc, err[:300]))
            key = "hang@seq" if to else (run.san_key(err) or "exit:%s@?" % rc)
            res["crashes"].append({"seq": last, "key": key, "report": err[:3000]})
            res["seqs"] += last - start + 1
            start = last + 1
    finally:
        shutil.rmtree(d, ignore_errors=True)
    return res


def check(tier):
    ck = core.Check("C19", tier)
    variants = ["cont", "cont-small", "cont++", "cont++-small"]
    exes = build.build_many(variants)
    per_variant = 24000 if tier == "quick" else 3000000
    max_ops = 300 if tier == "quick" else 400
    shards = 4
    jobs = []
    for v in variants:
        n = per_variant // shards
        for s in range(shards):
            jobs.append((v, exes[v], ck.seed, s * n, n, max_ops))
    results = core.pmap(_shard, jobs)
    tot = {"hash_ops": 0, "expansions": 0, "removals": 0, "reinserts": 0, "os_ops": 0, "os_moves": 0,
           "os_finished": 0, "vlo_ops": 0, "vlo_moves": 0}
    nontriv = [0, 0, 0]
    by_variant = {}
    for r in results:
        ck.cov["evaluations"] += r["seqs"]
        bv = by_variant.setdefault(r["variant"], {"seqs": 0, "nontrivial": 0})
        bv["seqs"] += r["seqs"]
        for s in r["summ"]:
            for k in tot:
                tot[k] += s[k]
            for i in range(3):
                nontriv[i] += s["nontrivial"][i]
            bv["nontrivial"] += sum(s["nontrivial"])
        for v in r["viols"]:
            key = "%s:%s@%s" % (v["kind"], v["viol"], "c++" if "++" in r["variant"] else "c")
            ck.violation(key, "variant=%s seq=%d op=%d a=%d b=%d" % (r["variant"], v["seq"], v["op"], v["a"], v["b"]),
                         {"variant": r["variant"], "seq": v["seq"], "max_ops": max_ops, "harness": "cont"})
        for c in r["crashes"]:
            ck.violation(c["key"], "variant=%s seq=%d" % (r["variant"], c["seq"]),
                         {"variant": r["variant"], "seq": c["seq"], "max_ops": max_ops, "harness": "cont",
                          "report": c["report"]})
    ck.cov["distinct_nontrivial"] = sum(nontriv)
    ck.cov["rule"] = ("sequence i (kind i%3: hash table / object stack / VLO) is generated from (VERIF_SEED, i) alone, "
                      "1..max_ops operations with sizes chosen around segment and growth boundaries and hash functions "
                      "with 1..7 distinct values; every (seed,i) is distinct. Non-trivial: hash sequences with >=1 "
                      "expansion and >=1 removal, object-stack sequences in which the top object moved to another "
                      "segment, VLO sequences in which realloc moved the object. The same sequences run on the C and "
                      "the C++ implementation, each also with 16-byte segments / 8-byte initial VLOs.")
    ck.cov["nontrivial_by_kind"] = {"hash": nontriv[0], "objstack": nontriv[1], "vlo": nontriv[2]}
    ck.cov["observed"] = tot
    ck.cov["by_variant"] = by_variant
    ck.cov["max_ops"] = max_ops
    ck.sample({"replay": "build/cont-*/drv %d <seq> 1 %d /dev/stdout" % (ck.seed, max_ops),
               "example_sequences": [0, 1, 2], "kinds": ["hash", "os", "vlo"]})
    ck.assumptions = ["reference models are the byte-array / membership-set semantics described in the package headers",
                      "ASan red zones exist only around whole malloc blocks; objects inside one segment are checked by "
                      "content comparison only",
                      "clean sanitizer run = no report on these executions, not memory safety"]
    ck.floor = 1000
    ck.require("hash expansions", tot["expansions"], 100)
    ck.require("hash reinserts after removal", tot["reinserts"], 100)
    ck.require("object stack segment moves", tot["os_moves"], 100)
    ck.require("vlo realloc moves", tot["vlo_moves"], 100)
    return ck.finish()
