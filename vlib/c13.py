"""C13: caller owns tree memory (shadow heap, reachability walks, exact pairing)."""
import random
from . import core, sem, gen, oracle, build, run, recx
from .gram import emit_define, emit_tokens, emit_config


def gen_case(rng, cid, grams):
    name, g, strict = grams[rng.randrange(len(grams))]
    L = ["C %d" % cid, "new 0"]
    L += emit_define(g, 0, strict)
    ins = gen.inputs_for(rng, g, 3, 6, 9)
    code = g.code_of()
    nparse = rng.choice([1, 1, 2, 3])
    parses = []
    for k in range(nparse):
        w = rng.choice(ins) if ins else []
        cfg = dict(la=rng.randrange(3), one=rng.randrange(2), cost=rng.randrange(2), rec=1 if rng.random() < 0.8 else 0,
                   match=rng.choice([1, 2, 3]))
        amode = rng.choice([2, 2, 2, 1, 0])
        L += emit_config(0, **cfg)
        L += emit_tokens([code[t] for t in w])
        L.append("parse 0 %d f" % amode)
        parses.append((w, cfg, amode))
    order = list(range(nparse))
    L += ["walk %d f" % t for t in order]
    L.append("free 0")
    L += ["walk %d f" % t for t in order]
    rng.shuffle(order)
    for t in order:
        L.append("ftree %d %d" % (t, rng.randrange(2)))
    return g, parses, L


def _worker(args):
    seed, idx, n, variant = args
    rng = random.Random(seed * 1299709 + idx * 15485867)
    sh = sem.Shard()
    grams = sem.grammar_stream(rng, 30) + recx.error_grammars(rng, 30)
    cases = {}
    lines = []
    for cid in range(n):
        g, parses, L = gen_case(rng, cid, grams)
        cases[cid] = (g, parses, L)
        lines += L
    exe = build.build(variant)
    tr = run.run_text(exe, "\n".join(lines) + "\n")
    for cid, (g, parses, L) in cases.items():
        case = tr.get(cid)
        if case is None:
            sh.inconclusive += 1
            continue
        rep = {"scenario": "\n".join(L) + "\n", "variant": variant, "grammar_text": repr(g)}
        if case.status != "ok":
            sh.viol.append((case.key or case.status + "@case", "grammar=%r" % g, dict(rep, report=case.report[:4000])))
            continue
        ps = [s for s in case.steps if s.get("op") == "parse"]
        walks = [s for s in case.steps if s.get("op") == "walk"]
        fts = {s["tid"]: s for s in case.steps if s.get("op") == "ftree"}
        np = len(ps)
        for s in case.steps:
            for b in s.get("bad", []):
                sh.viol.append(("shadow:%s@%s" % (b[0], s["op"]), "grammar=%r step=%s %s" % (g, s["op"], b), rep))
        for t, p in enumerate(ps):
            sh.evals += 1
            w, cfg, amode = parses[t]
            if p["rc"] != 0:
                continue
            before = walks[t] if t < len(walks) else None
            after = walks[np + t] if np + t < len(walks) else None
            for nm, wk in (("walk_before_free_grammar", before), ("walk_after_free_grammar", after)):
                if wk is None or wk.get("skipped"):
                    continue
                if wk.get("tree") != p.get("tree") or wk.get("root") != p.get("root"):
                    sh.viol.append(("tree_changed:%s@-" % nm, "grammar=%r input=%s config=%s" % (g, w, cfg), rep))
            nodes = p.get("tree") or []
            shared = False
            if nodes:
                refs = {}
                for nd in nodes:
                    ch = nd[3] if nd[0] == 'A' else ([x for x in nd[1:3] if x >= 0] if nd[0] == 'L' else [])
                    for c in ch:
                        refs[c] = refs.get(c, 0) + 1
                shared = any(v >= 2 for v in refs.values())
            if amode in (1, 2):
                if p["live"] != p["pa"] - p["pf"]:
                    sh.viol.append(("alloc_free_accounting@parse", "pa=%d pf=%d live=%d" % (p["pa"], p["pf"], p["live"]), rep))
                if amode == 1 and p["pf"] != 0:
                    sh.viol.append(("parse_free_called_although_null@parse", "pf=%d" % p["pf"], rep))
            ft = fts.get(t)
            if ft and not ft.get("skipped") and p.get("root", -1) != -1:
                if ft["tcb"] not in (0, p.get("nt", 0)):
                    sh.viol.append(("termcb_count@free_tree", "termcb=%d term_nodes=%d" % (ft["tcb"], p.get("nt", 0)), rep))
                if amode == 2:
                    if ft["live"] != 0:
                        sh.viol.append(("blocks_not_released@free_tree", "live=%d" % ft["live"], rep))
                    if ft["pf"] != p["live"]:
                        sh.viol.append(("free_count@free_tree", "freed=%d live_before=%d" % (ft["pf"], p["live"]), rep))
                if amode == 0 and ft["lbd"] >= 0 and p.get("nn", 0) > 0:
                    sh.viol.append(("default_allocator_tree_not_released@free_tree", "lbd=%d" % ft["lbd"], rep))
            if shared or (amode == 2 and p["pf"] > 0):
                sh.nontrivial.add(hash((repr(g), tuple(w), str(cfg), amode)))
            if shared:
                sh.count("trees_with_shared_nodes")
            if amode == 2 and p["pf"] > 0:
                sh.count("parses_that_freed_blocks")
            if p.get("err"):
                sh.count("parses_with_recovery")
            sh.count("amode_%d" % amode)
        if case.end and (case.end.get("lb") != 0 or case.end.get("ly") != 0):
            sh.viol.append(("library_memory_not_released@case_end", "live_blocks=%s live_bytes=%s" % (
                case.end.get("lb"), case.end.get("ly")), rep))
    c0 = cases[0]
    sh.samples.append({"grammar": repr(c0[0]), "parses": [(w, cfg, am) for w, cfg, am in c0[1]], "steps": c0[2][-8:]})
    return sh.result()


def check(tier):
    ck = core.Check("C13", tier)
    shards, n = (16, 2000) if tier == "quick" else (160, 6000)
    res = core.pmap(_worker, [(ck.seed, i, n, "vf" if i % 4 != 3 else "vf-small") for i in range(shards)])
    counters = sem.merge(ck, res)
    ck.cov["rule"] = ("cases: one grammar object (pool/random/mutant/error grammars, names and arrays of the definition "
                      "poisoned and freed right after the defining call), 1-3 parses with random flags (one/all parses, "
                      "cost, recovery) and allocator mode (alloc+free with shadow heap / alloc only / default), then "
                      "walk every tree, free the grammar, walk again (dumps must be identical), then yaep_free_tree "
                      "in random order with or without termcb. Library built with the malloc family renamed, so the "
                      "default allocator and the library's own heap are accounted too. Non-trivial = distinct parses "
                      "whose tree has a node with >=2 parents or during which parse_free released >=1 block.")
    ck.assumptions = ["yaep.h preconditions respected: yaep_free_tree only after yaep_free_grammar, never for "
                      "trees built with parse_alloc but without parse_free"]
    ck.floor = 1000
    ck.require("trees with shared nodes", counters.get("trees_with_shared_nodes", 0), 200)
    ck.require("parses that freed blocks", counters.get("parses_that_freed_blocks", 0), 200)
    return ck.finish()
