"""C16: the C++ class interface behaves identically to the C interface."""
import random
from . import core, sem, gen, oracle, build, run, recx, desc, c10, c11, c12, c13, hist, ansic
from .gram import hx, emit_define, emit_tokens

DROP = ("a0", "a1", "fault", "lb", "ly", "tb", "lbd", "impl")


def norm(step):
    o = {k: v for k, v in step.items() if k not in DROP}
    if "hk" in o:
        o["hk"] = {k: v for k, v in o["hk"].items() if k != "25"}     # hash statistics depend on addresses
    return o


def family_cases(rng, fam, n, cid0):
    """returns list of (cid, family, lines)"""
    out = []
    cid = cid0
    if fam == "semantic":
        for name, g, strict in sem.grammar_stream(rng, max(1, n // 4)):
            ins = gen.inputs_for(rng, g, 3, 6, 9)
            rng.shuffle(ins)
            for w in ins[:4]:
                cfgs = rng.sample(sem.ALL_CONFIGS, 5)
                out.append((cid, fam, sem.emit_case(cid, g, strict, w, cfgs)))
                cid += 1
    elif fam == "recovery":
        for name, g, strict in recx.error_grammars(rng, max(1, n // 4)):
            ref = oracle.Ref(g)
            for w in recx.rec_inputs(rng, g, ref, 4, 9):
                cfgs = rng.sample(recx.rec_configs((1, 2, 3, 5), ones=(1, 0)), 4)
                out.append((cid, fam, sem.emit_case(cid, g, strict, w, cfgs)))
                cid += 1
    elif fam == "definitions":
        pool = gen.pool()
        for _ in range(n):
            g0 = pool[rng.randrange(len(pool))][1]
            g = c10.inject(rng, g0, rng.choice(c10.DEFECTS)) if rng.random() < 0.7 else gen.random_grammar(rng)
            L = ["C %d" % cid, "new 0"] + emit_define(g, 0, rng.randrange(2)) + ["k 97 98", "parse 0 2 n", "err 0", "free 0"]
            out.append((cid, fam, L))
            cid += 1
    elif fam == "descriptions":
        texts = []
        for _ in range(max(1, n // 3)):
            g, strict = c11.printable_grammar(rng)
            text, den = desc.print_desc(rng, g, implicit=rng.random() < 0.5)
            texts.append(text)
            codes = den.code_of()
            ins = [[codes[t] for t in w] for w in c11.inputs_for(rng, den, 2)]
            out.append((cid, fam, c11.emit_twin_case(cid, text, den, strict, ins)))
            cid += 1
        for _ in range(n - len(texts)):
            mt = c11.mutate_text(rng, rng.choice(texts))
            out.append((cid, fam, ["C %d" % cid, "new 0", "desc 0 1 " + hx(mt), "k 97", "parse 0 2 f", "err 0", "free 0"]))
            cid += 1
    elif fam == "hostile":
        pool_texts = [desc.print_desc(rng, g)[0] for nm, g in gen.pool() if desc.printable(g)]
        for _ in range(n):
            kind, L, feats = c12.gen_case(rng, cid, pool_texts)
            out.append((cid, fam, L))
            cid += 1
    elif fam == "memory":
        grams = sem.grammar_stream(rng, 15) + recx.error_grammars(rng, 15)
        for _ in range(n):
            g, parses, L = c13.gen_case(rng, cid, grams)
            out.append((cid, fam, L))
            cid += 1
    elif fam == "histories":
        defs = hist.defn_pool(rng)
        for _ in range(n):
            steps = hist.gen_history(rng, defs, rng.randrange(5, 30), rng.choice(["c14", "c15"]))
            out.append((cid, fam, hist.emit_history(cid, steps)))
            cid += 1
    return out


def _worker(args):
    seed, idx, n_per_family, vc, vcxx = args
    rng = random.Random(seed * 633910099 + idx * 2305843009)
    sh = sem.Shard()
    cases = []
    for fam in ("semantic", "recovery", "definitions", "descriptions", "hostile", "memory", "histories"):
        cases += family_cases(rng, fam, n_per_family, len(cases) * 1000 + 1)
    # renumber uniquely
    lines = []
    for cid, fam, L in cases:
        lines += L
    text = "\n".join(lines) + "\n"
    tc = run.run_text(build.build(vc), text)
    tx = run.run_text(build.build(vcxx), text)
    for cid, fam, L in cases:
        a, b = tc.get(cid), tx.get(cid)
        sh.evals += 1
        rep = {"scenario": "\n".join(L) + "\n", "variant": vcxx, "family": fam}
        if a is None or b is None:
            sh.inconclusive += 1
            continue
        if b.status != "ok":
            sh.viol.append((("c++:" + (b.key or b.status + "@case")), "family=%s (C run: %s)" % (fam, a.status),
                            dict(rep, report=b.report[:4000])))
            continue
        if a.status != "ok":
            # the C side is judged by the other checks; cannot compare
            sh.count("c_side_failed")
            continue
        sa, sb = [norm(s) for s in a.steps], [norm(s) for s in b.steps]
        if sa != sb:
            k = 0
            while k < min(len(sa), len(sb)) and sa[k] == sb[k]:
                k += 1
            da = sa[k] if k < len(sa) else None
            db = sb[k] if k < len(sb) else None
            diff = sorted(x for x in set(da or {}) | set(db or {}) if (da or {}).get(x) != (db or {}).get(x))
            sh.viol.append(("c_and_cxx_differ:%s:%s@%s" % ((da or db).get("op"), "+".join(diff), fam),
                            "step %d: C=%s C++=%s" % (k, str({x: (da or {}).get(x) for x in diff})[:300],
                                                      str({x: (db or {}).get(x) for x in diff})[:300]), rep))
        if any(s.get("op") == "parse" and s.get("rc") == 0 and s.get("nn", 0) > 0 for s in a.steps) or fam == "histories":
            sh.nontrivial.add(hash(rep["scenario"]))
        sh.count("family_" + fam)
    sh.samples.append({"family": cases[0][1], "scenario_head": cases[0][2][:8]})
    return sh.result()


def _big_worker(args):
    seed, which, vc, vcxx = args
    sh = sem.Shard()
    lines = []
    if which == "ansic":
        a = ansic.ensure()
        for k, la in enumerate((0, 1, 2)):
            lines += ["C %d" % k, "new 0", "set 0 la %d" % la, "desc 0 1 " + hx(a["text"]), "kfile " + a["toks"]["test.i"],
                      "parse 0 2 h", "free 0", "ftree 0 1"]
        label = "ansic test.i"
    else:
        g = c12.chain_grammar(random.Random(seed), 3, lambda i: 97 + i)
        from .gram import G
        g = G("L : L a # c (0 1) | L b # d (0 1) | a # 0 | # e")
        for k, (la, one) in enumerate(((0, 1), (1, 0), (2, 1))):
            lines += ["C %d" % k, "new 0", "set 0 la %d" % la, "set 0 one %d" % one] + emit_define(g, 0, 1) + \
                     ["krep %d 97 98 97" % which, "parse 0 2 h", "free 0", "ftree 0 0"]
        label = "list of %d tokens" % (3 * which)
    text = "\n".join(lines) + "\n"
    tc = run.run_text(build.build(vc), text, case_timeout=900)
    tx = run.run_text(build.build(vcxx), text, case_timeout=900)
    for k in range(3):
        a, b = tc.get(k), tx.get(k)
        sh.evals += 1
        rep = {"scenario": text if len(text) < 20000 else None, "variant": vcxx, "workload": label}
        if a is None or b is None:
            sh.inconclusive += 1
            continue
        if b.status != "ok":
            sh.viol.append(("c++:" + (b.key or b.status + "@case"), "workload=%s" % label, dict(rep, report=b.report[:4000])))
            continue
        if a.status != "ok":
            continue
        sa, sb = [norm(s) for s in a.steps], [norm(s) for s in b.steps]
        if sa != sb:
            sh.viol.append(("c_and_cxx_differ:big_input@%s" % label.split()[0], "workload=%s" % label, rep))
        sh.nontrivial.add(label + str(k))
        sh.count("large_inputs_compared")
    sh.samples.append({"workload": label})
    return sh.result()


def _dispatch(a):
    return _worker(a[1]) if a[0] == "w" else _big_worker(a[1])


def check(tier):
    ck = core.Check("C16", tier)
    shards, n = (14, 60) if tier == "quick" else (224, 150)
    jobs = []
    for i in range(shards):
        small = (i % 4 == 3)
        jobs.append(("w", (ck.seed, i, n, "asan-small" if small else "asan", "asan++-small" if small else "asan++")))
    jobs.append(("b", (ck.seed, "ansic", "asan", "asan++")))
    jobs.append(("b", (ck.seed, 7000 if tier == "quick" else 40000, "asan", "asan++")))
    res = core.pmap(_dispatch, jobs)
    counters = sem.merge(ck, res)
    ck.cov["rule"] = ("the same scenario files run through libyaep (C driver) and through class yaep + the C++ containers "
                      "(the driver compiled as C++), both under ASan/UBSan; families: semantic parses (all flag "
                      "combinations), recovery, defective definitions, descriptions (valid twins and mutants), hostile "
                      "C12 cases, memory-ownership cases (walk/free order, free_tree), API histories over 3 objects; "
                      "plus large inputs (ANSI C on test.i at 3 lookahead levels, a 21k/120k-token list) that make the "
                      "C++ hash tables expand and object stacks chain segments. Transcripts are compared step by step "
                      "(allocator counters and the address-dependent hash statistic removed). Non-trivial = distinct "
                      "cases in which a parse built a tree, all histories, every large input.")
    ck.assumptions = ["pointers are abstracted to node ids / token positions by the driver",
                      "the C side's own correctness is judged by C01-C15"]
    ck.floor = 300
    ck.require("large inputs compared", counters.get("large_inputs_compared", 0), 6)
    return ck.finish()
