"""Abstract grammars, scenario emission, generators."""
import random

NIL = 2 ** 31 - 1   # YAEP_NIL_TRANSLATION_NUMBER


def hx(s):
    if s is None:
        return "-"
    if isinstance(s, str):
        s = s.encode("latin-1")
    return "x" + s.hex()


class Rule:
    __slots__ = ("lhs", "rhs", "anode", "cost", "transl")

    def __init__(self, lhs, rhs, anode=None, cost=0, transl=None):
        self.lhs = lhs
        self.rhs = list(rhs)
        self.anode = anode
        self.cost = cost
        self.transl = None if transl is None else list(transl)

    def key(self):
        return (self.lhs, tuple(self.rhs), self.anode, self.cost,
                None if self.transl is None else tuple(self.transl))

    def __repr__(self):
        t = ""
        if self.anode is not None:
            t = " # %s %d (%s)" % (self.anode, self.cost, " ".join("-" if x == NIL else str(x) for x in (self.transl or [])))
        elif self.transl:
            t = " # " + " ".join("-" if x == NIL else str(x) for x in self.transl)
        return "%s : %s%s" % (self.lhs, " ".join(self.rhs), t)


class Grammar:
    """terms: list of (name, code); rules: list of Rule.  Symbols that are
    not declared terminals are nonterminals.  The start symbol is the lhs of
    the first rule."""

    def __init__(self, terms, rules):
        self.terms = list(terms)
        self.rules = list(rules)

    def key(self):
        return (tuple(self.terms), tuple(r.key() for r in self.rules))

    def term_names(self):
        return [t[0] for t in self.terms]

    def code_of(self):
        return dict(self.terms)

    def start(self):
        return self.rules[0].lhs if self.rules else None

    def nonterms(self):
        tn = set(self.term_names())
        seen = []
        for r in self.rules:
            for s in [r.lhs] + r.rhs:
                if s not in tn and s != "error" and s not in seen:
                    seen.append(s)
        return seen

    def __repr__(self):
        return "TERM %s; %s" % (" ".join("%s=%d" % t for t in self.terms), " | ".join(map(repr, self.rules)))

    def to_json(self):
        return {"terms": [[n, c] for n, c in self.terms],
                "rules": [[r.lhs, r.rhs, r.anode, r.cost, r.transl] for r in self.rules]}

    @staticmethod
    def from_json(o):
        return Grammar([(n, c) for n, c in o["terms"]],
                       [Rule(l, rh, a, c, t) for l, rh, a, c, t in o["rules"]])

    def emit(self):
        out = []
        for n, c in self.terms:
            out.append("t %s %d" % (hx(n), c))
        for r in self.rules:
            ln = "r %s %s %d %d" % (hx(r.lhs), hx(r.anode), r.cost, len(r.rhs))
            for s in r.rhs:
                ln += " " + hx(s)
            if r.transl is None:
                ln += " N"
            else:
                ln += " T" + "".join(" %d" % x for x in r.transl)
            out.append(ln)
        return out


def emit_define(g, slot, strict):
    return g.emit() + ["read %d %d" % (slot, strict)]


def emit_config(slot, la=None, one=None, cost=None, rec=None, match=None, dbg=None):
    out = []
    for w, v in (("la", la), ("one", one), ("cost", cost), ("rec", rec), ("match", match), ("dbg", dbg)):
        if v is not None:
            out.append("set %d %s %d" % (slot, w, v))
    return out


def emit_tokens(codes):
    out = []
    for i in range(0, len(codes), 200):
        out.append("k " + " ".join(str(c) for c in codes[i:i + 200]))
    return out


# ---------------------------------------------------------------- parsing of
# a compact grammar notation used by the pool:  "S : a S b # node 2 (0 1) | ;"
def G(text, codes=None):
    """Compact notation: rules separated by ';' or newline, alternatives by
    '|'.  Lower-case identifiers and quoted chars are terminals; 'error' is
    the error terminal.  Translation: '# n', '# -', '# name [cost] (n - ...)'."""
    import re
    terms = []
    rules = []
    text = re.sub(r"'(.)'", lambda m: " \x01%d " % ord(m.group(1)), text)

    def unq(s):
        return "'%s'" % chr(int(s[1:])) if s.startswith("\x01") else s

    def term(name):
        if name == "error":
            return
        if name not in [t[0] for t in terms]:
            code = (codes or {}).get(name)
            if code is None:
                code = ord(name[1]) if name.startswith("'") else (ord(name) if len(name) == 1 else 300 + len(terms))
            terms.append((name, code))

    for stmt in text.replace("\n", ";").split(";"):
        stmt = stmt.strip()
        if not stmt:
            continue
        lhs, body = stmt.split(":", 1)
        lhs = lhs.strip()
        for alt in body.split("|"):
            if "#" in alt:
                seq, tr = alt.split("#", 1)
            else:
                seq, tr = alt, None
            rhs = [unq(x) for x in seq.split()]
            for s in rhs:
                if s[0].islower() or s[0] == "'":
                    term(s)
            anode, cost, transl = None, 0, None
            if tr is not None:
                tr = tr.strip()
                if tr == "":
                    transl = None
                elif tr == "-":
                    transl = [NIL]
                elif tr.isdigit():
                    transl = [int(tr)]
                else:
                    head, _, args = tr.partition("(")
                    hp = head.split()
                    anode = hp[0]
                    cost = int(hp[1]) if len(hp) > 1 else 1
                    transl = []
                    for a in args.replace(")", " ").split():
                        transl.append(NIL if a == "-" else int(a))
            rules.append(Rule(lhs, rhs, anode, cost, transl))
    return Grammar(terms, rules)
