"""API histories over several grammar objects: generator, emission, the
fresh-object oracle of C14 and the contract model of C15."""
import random
from . import core, sem, gen, oracle, build, run, desc, c10
from .gram import Grammar, hx, emit_tokens

DEFAULTS = {"la": 1, "one": 1, "cost": 0, "rec": 1, "match": 3, "dbg": 0}
PARAMS = ["la", "one", "cost", "rec", "match", "dbg"]
INT_MAX = 2 ** 31 - 1
INT_MIN = -2 ** 31


class Defn:
    """a definition: callbacks (grammar) or description (text)"""

    def __init__(self, did, kind, g, text, strict):
        self.did, self.kind, self.g, self.text, self.strict = did, kind, g, text, strict

    def emit(self, slot):
        if self.kind == "desc":
            return ["desc %d %d %s" % (slot, self.strict, hx(self.text))]
        return self.g.emit() + ["read %d %d" % (slot, self.strict)]

    def key(self):
        return (self.kind, self.text if self.kind == "desc" else self.g.key(), self.strict)


def big_definitions(rng):
    """good definitions whose storage outgrows the initial segments of the grammar's object stacks: a rule with a
    very long right hand side, and symbol / node names longer than a segment"""
    from . import c12
    from .gram import Grammar, Rule
    out = []
    k = rng.choice([70, 120, 200])
    out.append(c12.chain_grammar(rng, k, lambda i: 1000 + i))
    g0 = gen.pool()[rng.randrange(len(gen.pool()))][1]
    m = {}

    def nm(x):
        if x == "error":
            return x
        if x not in m:
            m[x] = "%s_%s" % (x.strip("'") if x.strip("'").isalnum() else "q%d" % len(m), "z" * rng.choice([30, 520, 700, 1500]))
        return m[x]
    out.append(Grammar([(nm(n), c) for n, c in g0.terms],
                       [Rule(nm(r.lhs), [nm(x) for x in r.rhs], None if r.anode is None else r.anode + "w" * rng.choice([5, 600]),
                             r.cost, r.transl) for r in g0.rules]))
    out.append(many_contexts_grammar(rng))
    return out


def many_contexts_grammar(rng):
    """n bracketed items `ti B ti': with dynamic lookahead B gets one context per bracket, created when the parse
    first meets it and numbered in the grammar's terminal-set table, which outlives the parse.  Its own input
    generator makes the first inputs long (all brackets) and the later ones short and differently ordered, so that
    a later parse asks for the per-context tables in another order than the one that numbered them."""
    from .gram import Rule
    n = rng.choice([12, 16, 24, 40])
    terms = [("x", 999)] + [("t%d" % i, 1000 + i) for i in range(n)]
    rules = [Rule("P", ["P", "I"], "l", 1, [0, 1]), Rule("P", ["I"], None, 0, [0])]
    for i in range(n):
        rules.append(Rule("I", ["t%d" % i, "B", "t%d" % i], "s", 1, [0, 1]))
    rules.append(Rule("B", ["x"], "b", 1, [0]))
    g = Grammar(terms, rules)
    state = {"calls": 0}

    def input_gen(r):
        state["calls"] += 1
        items = list(range(n))
        r.shuffle(items)
        if r.random() < 0.45:
            pick = items
        else:
            pick = items[:r.randrange(1, 5)]
        w = []
        for i in pick:
            w += ["t%d" % i, "x", "t%d" % i]
        if r.random() < 0.15 and w:
            w[r.randrange(len(w))] = "x"
        return w
    g.input_gen = input_gen
    return g


def defn_pool(rng, n_good=10, n_bad=8):
    out = []
    pool = gen.pool()
    did = 0
    for g in big_definitions(rng):
        strict = 1 if not oracle.wf(g, 1) else 0
        if oracle.wf(g, strict):
            continue
        d = Defn(did, "read", g, None, strict)
        d.good = True
        out.append(d)
        did += 1
    while len([d for d in out if d.good]) < n_good:
        if rng.random() < 0.6:
            nm, g = pool[rng.randrange(len(pool))]
            strict = 1 if not oracle.wf(g, 1) else 0
        else:
            g, strict = gen.accepted_random_grammar(rng, error_p=0.05)
        if oracle.wf(g, strict):
            continue
        if desc.printable(g) and rng.random() < 0.5:
            text, den = desc.print_desc(rng, g, implicit=rng.random() < 0.3)
            d = Defn(did, "desc", den, text, strict)
        else:
            d = Defn(did, "read", g, None, strict)
        d.good = True
        out.append(d)
        did += 1
    nb = 0
    while nb < n_bad:
        nm, g0 = pool[rng.randrange(len(pool))]
        r = rng.random()
        if r < 0.6:
            g = c10.inject(rng, g0, rng.choice(c10.DEFECTS))
            strict = rng.randrange(2)
            if not oracle.wf(g, strict):
                continue
            d = Defn(did, "read", g, None, strict)
        elif r < 0.7 and desc.printable(g0):
            text, den = desc.print_desc(rng, g0)
            text = text[:rng.randrange(1, len(text))] + rng.choice([":", "'", "|:", "#(", "/*", "\x01"])
            if desc.read_desc(text)[0] != "invalid":
                continue
            d = Defn(did, "desc", None, text, 1)
        elif r < 0.85:
            # a description which is read without syntax error but defines a defective grammar: the failure
            # happens while the description reader hands terminals and rules over
            g = c10.inject(rng, g0, rng.choice(["rep_code", "index_big", "index_eq_len", "rep_index", "term_lhs",
                                                "two_step_loop", "unproductive", "unreachable", "neg_cost"]))
            strict = rng.randrange(2)
            if not desc.printable(g) or not oracle.wf(g, strict):
                continue
            text, den = desc.print_desc(rng, g)
            d = Defn(did, "desc", den, text, strict)
        else:
            g = c10.inject(rng, g0, rng.choice(["unproductive", "unreachable", "self_loop", "two_step_loop"]))
            if not oracle.wf(g, 1):
                continue
            d = Defn(did, "read", g, None, 1)
        d.good = False
        out.append(d)
        did += 1
        nb += 1
    return out


class Obj:
    def __init__(self):
        self.settings = dict(DEFAULTS)
        self.defn = None        # last definition attempted
        self.defined = False    # last definition succeeded
        self.ever = False


def clamp_la(v):
    return 0 if v < 0 else 2 if v > 2 else v


def gen_history(rng, defs, n_steps, mode):
    """mode 'c14': flags from small valid sets; 'c15': arbitrary ints, more setters and token hostility"""
    slots = {}
    steps = []
    trees = []          # (slot_obj_id, amode, freed_obj?) per driver tree index
    objid = 0
    alive = {}
    for _ in range(n_steps):
        free_slots = [s for s in range(3) if s not in slots]
        choices = []
        if free_slots:
            choices += ["new"] * (3 if len(slots) < 2 else 1)
        if slots:
            choices += ["set"] * (4 if mode == "c15" else 2) + ["def"] * 3 + ["parse"] * 5 + ["free"] + ["err"]
        ft = [i for i, t in enumerate(trees) if not t["freed"] and t["obj"] not in alive and t["amode"] in (0, 2)]
        if ft:
            choices += ["ftree"] * 2
        op = rng.choice(choices)
        if op == "new":
            s = rng.choice(free_slots)
            slots[s] = Obj()
            slots[s].oid = objid
            alive[objid] = True
            objid += 1
            steps.append(("new", s))
            if mode == "c14" and rng.random() < 0.7:
                # a random configuration right away, so that unusual flag combinations meet long histories
                for w, v in (("cost", rng.randrange(2)), ("rec", rng.randrange(2)), ("one", rng.randrange(2)),
                             ("la", rng.choice([0, 1, 2]))):
                    if rng.random() < 0.6:
                        steps.append(("set", s, w, v, slots[s].settings[w]))
                        slots[s].settings[w] = v
        elif op == "set":
            s = rng.choice(list(slots))
            w = rng.choice(PARAMS)
            if mode == "c15":
                v = rng.choice([0, 1, 2, 3, -1, 5, 9, -7, INT_MAX, INT_MIN, 100])
                if w == "dbg":
                    v = rng.choice([0, 0, 0, 1, -1, 2])
                if w == "match" and rng.random() < 0.7:
                    v = rng.choice([1, 2, 3, 4, 5])
            else:
                v = {"la": rng.choice([0, 1, 2, -7, 9]), "one": rng.randrange(2), "cost": rng.randrange(2),
                     "rec": rng.randrange(2), "match": rng.choice([1, 2, 3, 4, 5]), "dbg": 0}[w]
            steps.append(("set", s, w, v, slots[s].settings[w]))
            slots[s].settings[w] = clamp_la(v) if w == "la" else v
        elif op == "def":
            s = rng.choice(list(slots))
            d = rng.choice(defs)
            steps.append(("def", s, d, dict(slots[s].settings)))
            slots[s].defn = d
            slots[s].defined = d.good
        elif op == "parse":
            s = rng.choice(list(slots))
            o = slots[s]
            toks = []
            if o.defined and o.defn.g is not None:
                g = o.defn.g
                if getattr(g, "input_gen", None) is not None:
                    w = g.input_gen(rng)
                else:
                    ins = gen.inputs_for(rng, g, 2, 4, 8)
                    w = rng.choice(ins) if ins else []
                code = g.code_of()
                toks = [code[t] for t in w]
                r = rng.random()
                hostile = 0.25 if mode == "c15" else 0.05
                if r < hostile:
                    codes = sorted(code.values())
                    bad = rng.choice([codes[0] - 1 if codes[0] > 0 else 1000000, codes[-1] + 1,
                                      (codes[0] + 1) if len(codes) > 1 and codes[0] + 1 not in codes else 1000001,
                                      INT_MAX, 0 if 0 not in codes else 1000002])
                    toks.insert(rng.randrange(len(toks) + 1), max(0, bad))
            else:
                toks = [rng.choice([97, 98, 1, 300]) for _ in range(rng.randrange(0, 4))]
            amode = rng.choice([2, 2, 0, 1] + ([3] if mode == "c15" else []))
            endc = rng.choice([-1, -1, -1, -2, -100, INT_MIN])
            steps.append(("parse", s, toks, amode, endc, dict(o.settings), o.defn, o.defined))
            trees.append({"obj": o.oid, "amode": amode, "freed": False})
        elif op == "free":
            s = rng.choice(list(slots))
            del alive[slots[s].oid]
            del slots[s]
            steps.append(("free", s))
        elif op == "err":
            s = rng.choice(list(slots))
            steps.append(("err", s))
        elif op == "ftree":
            i = rng.choice(ft)
            trees[i]["freed"] = True
            steps.append(("ftree", i, rng.randrange(2)))
    return steps


def emit_history(cid, steps):
    L = ["C %d" % cid]
    for st in steps:
        op = st[0]
        if op == "new":
            L.append("new %d" % st[1])
        elif op == "set":
            L.append("set %d %s %d" % (st[1], st[2], st[3]))
        elif op == "def":
            L += st[2].emit(st[1])
        elif op == "parse":
            L += emit_tokens(st[2])
            if st[4] != -1:
                L.append("kend %d" % st[4])
            L.append("parse %d %d f" % (st[1], st[3]))
        elif op == "free":
            L.append("free %d" % st[1])
        elif op == "err":
            L.append("err %d" % st[1])
        elif op == "ftree":
            L.append("ftree %d %d" % (st[1], st[2]))
    return L


def emit_fresh(cid, st):
    """the same call on a fresh object carrying only the current definition and settings"""
    L = ["C %d" % cid, "new 0"]
    if st[0] == "parse":
        _, s, toks, amode, endc, settings, defn, defined = st
        for w in PARAMS:
            L.append("set 0 %s %d" % (w, settings[w]))
        if defn is not None:
            L += defn.emit(0)
        L += emit_tokens(toks)
        if endc != -1:
            L.append("kend %d" % endc)
        L.append("parse 0 %d f" % amode)
    else:
        _, s, defn, settings = st
        for w in PARAMS:
            L.append("set 0 %s %d" % (w, settings[w]))
        L += defn.emit(0)
    L.append("free 0")
    return L


def fresh_key(st):
    if st[0] == "parse":
        _, s, toks, amode, endc, settings, defn, defined = st
        return ("parse", tuple(toks), amode, endc, tuple(sorted(settings.items())), defn.key() if defn else None)
    _, s, defn, settings = st
    return ("def", tuple(sorted(settings.items())), defn.key())


OBS_KEYS = ("rc", "ec", "em", "amb", "err", "root", "tree", "root_untouched")


def observation(step):
    return {k: step.get(k) for k in OBS_KEYS if k in step}
