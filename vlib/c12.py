"""C12: no crash, hang or undefined behaviour within API preconditions."""
import random
from . import core, sem, gen, oracle, build, run, desc, c10, c11
from .gram import Grammar, Rule, NIL, hx, emit_define, emit_tokens, emit_config

INT_MAX = 2 ** 31 - 1
INT_MIN = -2 ** 31
WEIRD_INTS = [0, 1, 2, 3, -1, -2, 5, 7, 100, 255, 256, 10000, 65535, INT_MAX, INT_MIN, INT_MAX - 1, -7, 9]


OTHER_G = Grammar([("a", 97), ("'+'", 43)], [Rule("E", ["E", "'+'", "a"], "p", 1, [0, 2]), Rule("E", ["a"], None, 0, [0])])


def rname(rng, n=None, ascii_only=False):
    n = n if n is not None else rng.choice([1, 2, 10, 50, 150, 170, 180, 199, 200, 201, 250, 300, 400])
    if ascii_only or rng.random() < 0.5:
        return "".join(rng.choice("abcxyz_XYZ09") for _ in range(n))
    return "".join(chr(rng.choice(list(range(1, 256)))) for _ in range(n))


def rename(rng, g):
    """replace every symbol/anode name of g by a long or odd name"""
    m = {}

    def nm(s):
        if s == "error":
            return s
        if s not in m:
            while True:
                x = rname(rng)
                if x not in m.values() and x not in ("error", "$S", "$eof"):
                    break
            m[s] = x
        return m[s]
    terms = [(nm(n), c) for n, c in g.terms]
    rules = [Rule(nm(r.lhs), [nm(s) for s in r.rhs], None if r.anode is None else rname(rng), r.cost, r.transl)
             for r in g.rules]
    return Grammar(terms, rules)


def chain_grammar(rng, k, code_of):
    """S : X1 ... Xk ; Xi : ti | ti Xi   -- long rhs, many symbols, always well-formed"""
    terms = [("t%d" % i, code_of(i)) for i in range(k)]
    rules = [Rule("S", ["X%d" % i for i in range(k)], "top", 1, list(range(0, k, max(1, k // 7))))]
    for i in range(k):
        rules.append(Rule("X%d" % i, ["t%d" % i], None, 0, [0]))
        if rng.random() < 0.3:
            rules.append(Rule("X%d" % i, ["t%d" % i, "X%d" % i], "x", 1, [0, 1]))
    return Grammar(terms, rules)


def code_layout(rng):
    k = rng.randrange(7)
    base = rng.choice([0, 1, 97, 255, 256, 1000, 1 << 20, INT_MAX - 20000])
    if k == 0:
        return lambda i: base + i                      # dense
    if k == 1:
        return lambda i: base + i * 3                  # gaps inside the dense table
    if k == 2:
        return lambda i: (i * 9999) if i < 2 else 5 + i   # span just below the table limit
    if k == 3:
        return lambda i: (i * 10000) if i < 2 else 5 + i  # span just at the limit
    if k == 4:
        return lambda i: (i * 10001) if i < 2 else 5 + i  # span just above the limit
    if k == 5:
        return lambda i: INT_MAX - i * 7               # near INT_MAX
    return lambda i: (i * 2654435761) % (INT_MAX - 5)  # sparse


def hostile_tokens(rng, g, n):
    codes = sorted(c for _, c in g.terms)
    out = []
    for _ in range(n):
        r = rng.random()
        if not codes or r < 0.5:
            out.append(rng.choice(codes) if codes else 5)
        elif r < 0.65 and len(codes) > 1:
            a = rng.choice(codes[:-1])
            out.append(a + 1 if a + 1 not in codes else a)     # inside a gap
        elif r < 0.75:
            out.append(codes[0] - 1 if codes[0] > 0 else 0)
        elif r < 0.85:
            out.append(min(INT_MAX, codes[-1] + rng.choice([1, 2, 1000])))
        else:
            out.append(rng.choice(WEIRD_INTS + [rng.randrange(0, INT_MAX)]))
    return [max(0, x) if rng.random() < 0.97 else x for x in out]


def gen_case(rng, cid, pool_texts):
    kind = rng.choice(["bytes", "mutdesc", "mutdesc", "longnames", "longnames", "bigrule", "codes", "codes", "flags",
                       "debug", "longdesc", "manyalts", "bigcost", "manyerrors", "ambig"])
    L = ["C %d" % cid, "new 0"]
    feats = set()
    amode = rng.choice([0, 1, 2, 2, 2, 3])
    if kind == "bytes":
        t = "".join(chr(rng.randrange(1, 256)) for _ in range(rng.randrange(0, 120)))
        L += ["desc 0 %d %s" % (rng.randrange(2), hx(t)), "k 1 2 3", "parse 0 %d h" % amode]
    elif kind == "mutdesc":
        t = pool_texts[rng.randrange(len(pool_texts))]
        for _ in range(rng.randrange(1, 5)):
            t = c11.mutate_text(rng, t)
        L += ["desc 0 %d %s" % (rng.randrange(2), hx(t))]
        L += emit_tokens([rng.choice([97, 98, 43, 40, 41, 256, 257, 0, 5]) for _ in range(rng.randrange(0, 8))])
        L += ["parse 0 %d h" % amode]
        feats.add("mutated_description")
    elif kind == "longdesc":
        # valid description with very long identifiers and many terminals
        n = rng.randrange(1, 40)
        ids = [rname(rng, rng.choice([1, 30, 170, 200, 300]), ascii_only=True) + "q%d" % i for i in range(n)]
        t = "TERM " + " ".join(ids) + ";\nS : " + " | ".join(rng.sample(ids, min(len(ids), 5))) + " # 0;\n"
        if rng.random() < 0.5:
            t += ids[0] + " : S ;\n"       # terminal in lhs -> message with a long name
        if rng.random() < 0.3:
            t = t.replace("TERM ", "TERM %s = 5 %s = 6 " % (ids[0], ids[0]), 1)
        L += ["desc 0 1 %s" % hx(t), "k 256 257", "parse 0 %d h" % amode]
        feats.add("long_names")
    elif kind == "longnames":
        g0 = gen.pool()[rng.randrange(len(gen.pool()))][1]
        g = rename(rng, g0)
        if rng.random() < 0.7:
            g = c10.inject(rng, g, rng.choice(c10.DEFECTS))
        L += emit_define(g, 0, rng.randrange(2))
        L += emit_tokens(hostile_tokens(rng, g, rng.randrange(0, 8)))
        L += ["parse 0 %d h" % amode]
        feats.add("long_names")
    elif kind == "bigrule":
        k = rng.choice([1, 5, 50, 120, 300])
        g = chain_grammar(rng, k, code_layout(rng))
        L += emit_config(0, la=rng.choice([0, 1, 2]), one=rng.randrange(2), rec=rng.randrange(2))
        L += emit_define(g, 0, 1)
        toks = [c for _, c in g.terms]
        if rng.random() < 0.5 and toks:
            i = rng.randrange(len(toks))
            toks = toks[:i] + toks[i + rng.randrange(0, 3):]
        L += emit_tokens(toks)
        L += ["parse 0 %d h" % (amode if amode != 3 else 2)]
        feats.add("long_rhs_%d" % k)
    elif kind == "manyalts":
        # hundreds of alternatives, each with its own lookahead context: the per-context tables of dynamic
        # lookahead (and the symbol tables) have to grow
        n = rng.choice([3, 40, 300, 600, 900])
        terms = [("x", 1)] + [("t%d" % i, 10 + i) for i in range(n)]
        rules = []
        for i in range(n):
            rules.append(Rule("S", ["A%d" % i, "t%d" % i], None, 0, [1]))
            rules.append(Rule("A%d" % i, ["x"], "a", 1, [0]))
        g = Grammar(terms, rules)
        L += emit_config(0, la=rng.choice([2, 2, 1, 0]), one=rng.randrange(2), rec=rng.randrange(2))
        L += emit_define(g, 0, 1)
        L += emit_tokens([1, 10 + rng.randrange(n)] if rng.random() < 0.8 else [1, 1, 10])
        L += ["parse 0 %d h" % (amode if amode != 3 else 2)]
        feats.add("many_alternatives_%d" % n)
    elif kind == "bigcost":
        # node costs are arbitrary non-negative ints: totals that do not fit an int, under the cost flag
        big = lambda: rng.choice([INT_MAX, INT_MAX // 2, INT_MAX // 2 + 1, 1 << 30, 1214748348, INT_MAX - 1, 7])
        g = Grammar([("a", 97), ("'+'", 43)],
                    [Rule("E", ["E", "'+'", "E"], "add", big(), [0, 2]), Rule("E", ["a"], "leaf", big(), [0]),
                     Rule("E", ["a"], "leaf2", big(), [])])
        L += emit_config(0, la=rng.choice([0, 1, 2]), one=rng.randrange(2), cost=1, rec=rng.randrange(2))
        L += emit_define(g, 0, 1)
        L += emit_tokens([97] + [43, 97] * rng.randrange(0, 5))
        L += ["parse 0 %d h" % (amode if amode != 3 else 2)]
        feats.add("huge_costs")
    elif kind == "manyerrors":
        # dozens of error recoveries in one parse (some ignore no token, so the parser list outgrows the token
        # list), all parses or the cost flag, translated terminals up to the end of the input
        from . import recx
        r = rng.random()
        if r < 0.4:
            g = Grammar([("a", 97), ("b", 98), ("c", 99), ("d", 100)],
                        [Rule("L", ["L", "I"], "l", 1, [0, 1]), Rule("L", ["I"], None, 0, [0]),
                         Rule("I", ["a", "b", "c", "d"], "i", 1, [0, 3]), Rule("I", ["error", "b", "c", "d"], "e", 2, [3])]
                        + ([Rule("I", ["a", "error", "d"], "f", 1, [0, 2])] if rng.random() < 0.5 else []))
            cap = 48                      # the recovery search itself is expensive: seconds for 80 tokens
        else:
            # other error grammars may be exponentially ambiguous: short inputs there (building all parses of a
            # long input is legitimately expensive, and a watchdog is not a verdict)
            g = recx.error_grammars(rng, 1, strict=None)[0][1]
            cap = 12
        terms = g.term_names()
        w = []
        sens = [x for x in gen.inputs_for(rng, g, 2, 6, 8) if x]
        for _ in range(rng.randrange(5, 20)):
            x = list(rng.choice(sens)) if sens and rng.random() < 0.8 else [rng.choice(terms)]
            if x and rng.random() < 0.6:
                del x[rng.randrange(len(x))]           # mostly a missing token: a recovery that ignores nothing
            w += x
        code = g.code_of()
        L += emit_config(0, la=rng.choice([0, 1, 2]), one=rng.randrange(2), cost=rng.randrange(2), rec=1,
                         match=rng.choice([1, 2, 3]))
        L += emit_define(g, 0, 0)
        L += emit_tokens([code[t] for t in w[:cap]])
        L += ["parse 0 %d h" % (amode if amode != 3 else 2)]
        feats.add("many_recoveries")
    elif kind == "ambig":
        # all parses of a^n for heavily ambiguous one-letter grammars whose rules use only some of their symbols
        # in the translation or pass one child through: the DAG is small, the work must stay small too (a
        # terminating but exponential construction shows as the watchdog's `hang')
        menu = [(["S", "a", "S", "S"], None, [0]), (["S", "a", "S", "S"], "q", [0]), (["S", "S", "a"], "p", [0, 2, 1]),
                (["S", "a", "S"], "r", [1, 0]), (["S", "a"], "m", []), (["a", "S", "a", "a"], "t", [3, 2, 1, 0]),
                (["S", "S"], None, [1]), (["S", "S"], "c", [0]), (["S", "S", "S"], None, [1]), (["a", "S"], None, [1])]
        picks = rng.sample(menu, rng.randrange(2, 6))
        rules = [Rule("S", rhs, an, 1 if an else 0, tr) for rhs, an, tr in picks]
        rules.append(Rule("S", ["a"], "l", 1, [0]))
        if rng.random() < 0.7:
            rules.append(Rule("S", [], "e", 0, []))
        g = Grammar([("a", 97)], rules)
        L += emit_config(0, la=rng.choice([0, 1, 2]), one=0 if rng.random() < 0.6 else 1, cost=rng.randrange(2), rec=0)
        L += emit_define(g, 0, 0)
        L += emit_tokens([97] * rng.randrange(8, 15))
        L += ["parse 0 %d h" % (amode if amode != 3 else 2)]
        feats.add("heavy_ambiguity")
    elif kind == "codes":
        k = rng.randrange(2, 12)
        lay = code_layout(rng)
        g = chain_grammar(rng, k, lay)
        L += emit_config(0, la=rng.choice([0, 1, 2]), rec=rng.randrange(2))
        L += emit_define(g, 0, 1)
        L += emit_tokens(hostile_tokens(rng, g, rng.randrange(1, 10)))
        if rng.random() < 0.3:
            L.append("kend %d" % rng.choice([-2, -100, INT_MIN, -3]))
        L += ["parse 0 %d h" % (amode if amode != 3 else 2)]
        feats.add("code_layouts")
    elif kind == "flags":
        for w in ("la", "dbg", "one", "cost", "rec", "match"):
            if rng.random() < 0.7:
                v = rng.choice(WEIRD_INTS)
                if w == "dbg":
                    v = rng.choice([-1, 0, 1, 2, 3, 4, 5, 6, 7, 100, -5])
                L.append("set 0 %s %d" % (w, v))
        name, g = gen.pool()[rng.randrange(len(gen.pool()))]
        L += emit_define(g, 0, 0)
        ins = gen.inputs_for(rng, g, 3, 4, 7)
        w = rng.choice(ins) if ins else []
        code = g.code_of()
        L += emit_tokens([code[t] for t in w])
        L += ["parse 0 %d h" % amode]
        feats.add("arbitrary_flags")
    else:
        name, g = gen.pool()[rng.randrange(len(gen.pool()))]
        L += emit_config(0, la=rng.choice([0, 1, 2]), one=rng.randrange(2), cost=rng.randrange(2), rec=1,
                         match=rng.choice([1, 2, 3]), dbg=rng.choice([-1, 1, 2, 3, 4, 5, 6]))
        if rng.random() < 0.5:
            text, den = desc.print_desc(rng, g) if desc.printable(g) else (None, None)
        else:
            text = None
        if text:
            L.append("desc 0 0 %s" % hx(text))
        else:
            L += emit_define(g, 0, 0)
        ins = gen.inputs_for(rng, g, 3, 4, 7)
        w = rng.choice(ins) if ins else []
        code = g.code_of()
        L += emit_tokens([code[t] for t in w])
        L += ["parse 0 %d h" % amode]
        feats.add("debug_output")
    # second parse on the same object sometimes, then err, free, free tree
    if rng.random() < 0.2:
        L += ["k 97 98", "parse 0 2 h"]
    L += ["err 0", "free 0"]
    if amode in (0, 2):
        L.append("ftree 0 %d" % rng.randrange(2))
    # another object's life around the hostile calls: the library's file-scope "current grammar" then refers to
    # a different object -- live, or already freed -- when the call under test starts
    r = rng.random()
    if r < 0.3:
        other = ["new 1"]
        if rng.random() < 0.7:
            other += emit_define(OTHER_G, 1, 1) + ["k 97 43 97", "parse 1 2 n"]
        pos = rng.randrange(2, len(L))           # after "new 0", anywhere before or between the calls under test
        while pos > 2 and L[pos - 1].split()[0] in ("k", "krep", "kend", "t", "r"):
            pos -= 1                             # not between a token list / callback data and the call using it
        if r < 0.15:
            L = L[:pos] + other + ["free 1"] + L[pos:]
            feats.add("after_another_object_was_freed")
        else:
            L = L[:pos] + other + L[pos:] + ["err 1", "free 1"]
            feats.add("another_object_alive")
    return kind, L, feats


def _worker(args):
    seed, idx, n, variant = args
    rng = random.Random(seed * 6700417 + idx * 2147483647)
    sh = sem.Shard()
    pool_texts = []
    for nm, g in gen.pool():
        if desc.printable(g):
            pool_texts.append(desc.print_desc(rng, g)[0])
    cases = {}
    lines = []
    for cid in range(n):
        kind, L, feats = gen_case(rng, cid, pool_texts)
        cases[cid] = (kind, L, feats)
        lines += L
    exe = build.build(variant)
    tr = run.run_text(exe, "\n".join(lines) + "\n", case_timeout=45)     # 90 s without a finished call = stuck
    for cid, (kind, L, feats) in cases.items():
        case = tr.get(cid)
        sh.evals += 1
        if case is None:
            sh.inconclusive += 1
            continue
        rep = {"scenario": "\n".join(L) + "\n", "variant": variant, "kind": kind}
        if case.status != "ok":
            sh.viol.append((case.key or case.status + "@case", "kind=%s variant=%s" % (kind, variant),
                            dict(rep, report=case.report[:4000])))
            continue
        reached = False
        for s in case.steps:
            if "rc" in s and not (0 <= s["rc"] <= 17):
                sh.viol.append(("undocumented_return_code:%d@%s" % (s["rc"], s["op"]), "kind=%s" % kind, rep))
            if "em" in s and len(s["em"]) > 200:
                sh.viol.append(("message_longer_than_buffer@%s" % s["op"], "kind=%s len=%d" % (kind, len(s["em"])), rep))
            for b in s.get("bad", []):
                sh.viol.append(("shadow:%s@%s" % (b[0], s["op"]), "kind=%s" % kind, rep))
            hk = s.get("hk", {})
            if "1" in hk and hk["1"][1] > 200:
                sh.count("messages_that_needed_truncation")
            if s.get("op") == "parse" and s.get("ntok", 0) >= 1 and s["rc"] in (0, 17):
                reached = True
                if s["rc"] == 17:
                    sh.count("invalid_token_code_reported")
                if s.get("err"):
                    sh.count("recovery_or_error_entered")
                if s.get("nn", 0) > 1:
                    sh.count("tree_built")
        if reached:
            sh.nontrivial.add(hash("\n".join(L)))
        sh.count("kind_" + kind)
        for f in feats:
            sh.count("feature_" + ("long_rhs" if f.startswith("long_rhs") else "many_alternatives" if f.startswith("many_alt") else f))
    c0 = cases[0]
    sh.samples.append({"kind": c0[0], "scenario_head": c0[1][:6]})
    return sh.result()


def _memcheck(seed, n):
    """a small sample under valgrind memcheck on the unsanitised build:
    uninitialised-value uses that do not crash"""
    import subprocess, os, shutil
    rng = random.Random(seed * 31 + 5)
    pool_texts = [desc.print_desc(rng, g)[0] for nm, g in gen.pool() if desc.printable(g)]
    lines = []
    for cid in range(n):
        kind, L, feats = gen_case(rng, cid, pool_texts)
        lines += L
    exe = build.build("plain")
    d = run.scratch_dir()
    try:
        sp = os.path.join(d, "scen")
        open(sp, "w").write("\n".join(lines) + "\n")
        p = subprocess.run(["valgrind", "-q", "--error-exitcode=99", "--errors-for-leak-kinds=none", "--leak-check=no",
                            exe, sp, os.path.join(d, "out")], capture_output=True, text=True, timeout=1500)
        return p.returncode, p.stderr[-3000:], "\n".join(lines) + "\n"
    finally:
        shutil.rmtree(d, ignore_errors=True)


def _nohook_compare(seed, n):
    """the guard is inert: the same scenarios give the same transcripts with and without -DYAEP_VERIF"""
    rng = random.Random(seed * 17 + 3)
    pool_texts = [desc.print_desc(rng, g)[0] for nm, g in gen.pool() if desc.printable(g)]
    lines = []
    for cid in range(n):
        kind, L, feats = gen_case(rng, cid, pool_texts)
        lines += L
    text = "\n".join(lines) + "\n"
    a = run.run_text(build.build("asan"), text)
    b = run.run_text(build.build("nohook"), text)
    diffs = 0
    for cid in a:
        if cid not in b:
            diffs += 1
            continue
        sa = [{k: v for k, v in s.items() if k != "hk"} for s in a[cid].steps]
        sb = [{k: v for k, v in s.items() if k != "hk"} for s in b[cid].steps]
        if sa != sb or a[cid].status != b[cid].status:
            diffs += 1
    return len(a), diffs


def check(tier):
    ck = core.Check("C12", tier)
    shards, n = (16, 1500) if tier == "quick" else (64, 12000)
    variants = ["asan" if i % 2 == 0 else "asan-small" for i in range(shards)]
    res = core.pmap(_worker, [(ck.seed, i, n, variants[i]) for i in range(shards)])
    counters = sem.merge(ck, res)
    rc, err, scen = _memcheck(ck.seed, 150 if tier == "quick" else 3000)
    ck.cov["memcheck_cases"] = 150 if tier == "quick" else 3000
    ck.cov["evaluations"] += ck.cov["memcheck_cases"]
    if rc == 99:
        ck.violation("memcheck:uninitialised_or_invalid@valgrind", err[-600:], {"scenario": scen, "variant": "plain", "report": err})
    elif rc != 0:
        ck.violation("memcheck_run_failed:%d@valgrind" % rc, err[-600:], {"scenario": scen, "variant": "plain", "report": err})
    ncmp, ndiff = _nohook_compare(ck.seed, 200 if tier == "quick" else 2000)
    ck.cov["guard_off_build_compared_cases"] = ncmp
    if ndiff:
        raise core.HarnessError("hook guard is not inert: %d of %d cases differ between the YAEP_VERIF and the plain build" % (ndiff, ncmp))
    ck.cov["rule"] = ("single-object cases of 9 kinds: random byte strings as descriptions; 1-4x mutated valid "
                      "descriptions; valid descriptions with identifiers up to 300 chars and up to 40 terminals; pool "
                      "grammars with all names replaced by 1..400-byte names (arbitrary bytes) plus an injected "
                      "definition defect (messages embed the names); chain grammars with rhs length up to 300; code "
                      "layouts dense / gapped / span 9999,10000,10001 / near INT_MAX / sparse with token streams "
                      "containing in-gap, below-min, above-max and arbitrary codes and negative terminators; arbitrary "
                      "int arguments to every setter; debug levels -1..6; allocator modes default / alloc only / "
                      "alloc+free / NULL alloc with free. asan and asan-small builds alternate; a sample runs under "
                      "valgrind memcheck on the unsanitised build. Non-trivial = distinct cases that reached "
                      "yaep_parse with >=1 token and a defined grammar.")
    ck.assumptions = ["ASan red zones only around whole malloc blocks (objects inside object-stack segments are not "
                      "separated); clean run = no report on these executions", "stack limit 1 GB for the driver",
                      "hang = no step finished for 60 s twice"]
    ck.floor = 2000
    ck.require("messages that needed truncation (H1)", counters.get("messages_that_needed_truncation", 0), 20)
    ck.require("invalid token codes reported", counters.get("invalid_token_code_reported", 0), 50)
    return ck.finish()
