"""Run scenario files through a driver build, with per-case crash/hang
attribution.  Returns transcripts: {caseid: Case}."""
import json, os, re, resource, signal, subprocess, tempfile, glob, shutil, time

ASAN_OPTS = ("abort_on_error=0:exitcode=86:detect_leaks=0:malloc_fill_byte=190:max_malloc_fill_size=1048576:"
             "free_fill_byte=221:max_free_fill_size=1048576:alloc_dealloc_mismatch=1:"
             "allocator_may_return_null=1:detect_stack_use_after_return=0:handle_abort=1")
UBSAN_OPTS = "print_stacktrace=1:halt_on_error=1:exitcode=87"

CASE_TIMEOUT = 60
BATCH_TIMEOUT = 1800


class Case:
    __slots__ = ("id", "steps", "status", "report", "key", "impl", "end")

    def __init__(self, cid):
        self.id = cid
        self.steps = []
        self.status = "incomplete"   # ok | crash | hang | exit | incomplete
        self.report = ""
        self.key = None
        self.impl = None
        self.end = None


def scratch_dir():
    d = os.environ.get("VERIF_SCRATCH")
    if not d:
        d = "/dev/shm" if os.path.isdir("/dev/shm") and os.access("/dev/shm", os.W_OK) else tempfile.gettempdir()
    p = tempfile.mkdtemp(prefix="vf_", dir=d)
    return p


def _preexec():
    os.setsid()
    try:
        resource.setrlimit(resource.RLIMIT_STACK, (1 << 30, 1 << 30))
    except (ValueError, OSError):
        pass
    resource.setrlimit(resource.RLIMIT_CORE, (0, 0))


FRAME = re.compile(r"#\d+ 0x[0-9a-f]+ in (\S+) (\S+)")


def san_key(text):
    """kind@site from a sanitizer report."""
    kind = None
    m = re.search(r"ERROR: AddressSanitizer: ([A-Za-z0-9_-]+)", text)
    if m:
        kind = "asan:" + m.group(1)
        if m.group(1) == "attempting":
            m2 = re.search(r"AddressSanitizer: attempting ([A-Za-z0-9_-]+)", text)
            kind = "asan:" + (m2.group(1) if m2 else "attempting")
    else:
        m = re.search(r"runtime error: (.*)", text)
        if m:
            msg = m.group(1)
            msg = re.sub(r"0x[0-9a-f]+", "ADDR", msg)
            msg = re.sub(r"-?\d+", "N", msg)
            kind = "ubsan:" + msg.strip()[:60].replace(" ", "_")
        else:
            m = re.search(r"ERROR: (\w+Sanitizer): ([^\n]*)", text)
            if m:
                kind = "san:" + m.group(2)[:40].replace(" ", "_")
    if kind is None:
        return None
    site = "?"
    for fm in FRAME.finditer(text):
        fn, loc = fm.group(1), fm.group(2)
        if "allocate.c" in loc:
            continue
        if "/repo/src/" in loc or "sgramm" in loc or ("/src/" in loc and "/verif/" not in loc and "libsanitizer" not in loc):
            site = fn
            break
    if site == "?":
        m = re.search(r"(\w+\.[cy](?:pp)?):\d+:\d+: runtime error", text)
        if m:
            site = m.group(1)
    return "%s@%s" % (kind, site)


def _read_err(outp):
    p = outp + ".err"
    txt = ""
    try:
        with open(p, "rb") as fh:
            fh.seek(0, 2)
            n = fh.tell()
            fh.seek(max(0, n - 65536))
            txt = fh.read().decode("latin-1")
    except OSError:
        pass
    try:
        os.unlink(p)
    except OSError:
        pass
    # keep only from the first sanitizer line on, if any
    i = txt.find("runtime error:")
    if i >= 0:
        j = txt.rfind("\n", 0, i)
        return txt[j + 1:]
    return txt[-2000:] if "Sanitizer" in txt else ""


def _collect_san(prefix):
    txt = ""
    for f in sorted(glob.glob(prefix + ".*")):
        try:
            with open(f, "r", errors="replace") as fh:
                txt += fh.read()
        except OSError:
            pass
        try:
            os.unlink(f)
        except OSError:
            pass
    return txt


def _parse_out(path, cases, order):
    """Parse driver output; returns (done, open_case_id)."""
    done = False
    cur = None
    try:
        fh = open(path, "r", errors="replace")
    except OSError:
        return False, None
    with fh:
        for ln in fh:
            ln = ln.strip()
            if not ln:
                continue
            try:
                o = json.loads(ln)
            except ValueError:
                # torn last line of a crashed process
                continue
            if "b" in o:
                cur = Case(o["b"])
                cur.impl = o.get("impl")
                cases[o["b"]] = cur
                order.append(o["b"])
            elif "e" in o:
                if cur is not None and cur.id == o["e"]:
                    cur.status = "ok"
                    cur.end = o
                cur = None
            elif "done" in o:
                done = True
            elif "harness_error" in o:
                raise RuntimeError("driver harness error: %s" % o["harness_error"])
            elif cur is not None:
                cur.steps.append(o)
    return done, (cur.id if cur is not None else None)


def run_scenario(exe, scen_path, workdir=None, case_ids=None, batch_timeout=BATCH_TIMEOUT,
                 case_timeout=CASE_TIMEOUT, env_extra=None, max_restarts=400, stderr_to=None):
    """Execute all cases of SCEN_PATH.  CASE_IDS: ordered ids as they appear
    in the file (needed to resume after a crash)."""
    own = workdir is None
    if own:
        workdir = scratch_dir()
    try:
        if case_ids is None:
            case_ids = []
            with open(scen_path) as fh:
                for ln in fh:
                    if ln.startswith("C "):
                        case_ids.append(int(ln.split()[1]))
        index = {c: i for i, c in enumerate(case_ids)}
        cases = {}
        start = 0
        restarts = 0
        env = dict(os.environ)
        while start < len(case_ids):
            outp = os.path.join(workdir, "out.%d" % restarts)
            sanp = os.path.join(workdir, "san.%d" % restarts)
            env["ASAN_OPTIONS"] = ASAN_OPTS + ":log_path=" + sanp
            env["UBSAN_OPTIONS"] = UBSAN_OPTS + ":log_path=" + sanp
            if env_extra:
                env.update(env_extra)
            if os.path.exists(outp):
                os.unlink(outp)
            p = subprocess.Popen([exe, scen_path, outp, str(start)], stdin=subprocess.DEVNULL,
                                 stdout=subprocess.DEVNULL,
                                 stderr=(open(stderr_to, "ab") if stderr_to else subprocess.DEVNULL),
                                 env=env, preexec_fn=_preexec)
            timed_out = False
            # progress watchdog: the driver flushes a line after every step, so an output file that has not grown
            # for 2 x case_timeout means one call has been running that long (inconclusive: the case is run
            # again alone below); the batch limit stays as a backstop
            deadline = time.time() + batch_timeout
            stall = max(40, 2 * case_timeout)
            last_size, last_change = -1, time.time()
            while True:
                try:
                    rc = p.wait(timeout=2)
                    break
                except subprocess.TimeoutExpired:
                    try:
                        sz = os.path.getsize(outp)
                    except OSError:
                        sz = 0
                    now = time.time()
                    if sz != last_size:
                        last_size, last_change = sz, now
                    if now - last_change > stall or now > deadline:
                        timed_out = True
                        try:
                            os.killpg(p.pid, signal.SIGKILL)
                        except OSError:
                            pass
                        rc = p.wait()
                        break
            order = []
            done, open_id = _parse_out(outp, cases, order)
            san = _collect_san(sanp) + _read_err(outp)
            os.unlink(outp) if os.path.exists(outp) else None
            if done and open_id is None:
                break
            if open_id is None:
                # died between cases or before the first one
                if not order and rc != 0 and not timed_out:
                    raise RuntimeError("driver failed to start: rc=%s %s" % (rc, san[:500]))
                nxt = (index[order[-1]] + 1) if order else start + 1
                if nxt <= start:
                    nxt = start + 1
                start = nxt
                restarts += 1
                continue
            c = cases[open_id]
            c.report = san
            if timed_out:
                c.status = "timeout"
            else:
                exit_ev = [s for s in c.steps if "exit_called" in s]
                if exit_ev:
                    c.status = "exit"
                    c.key = "exit:%d@library" % exit_ev[0]["exit_called"]
                else:
                    c.status = "crash"
                    k = san_key(san)
                    if k is None:
                        if rc < 0:
                            k = "signal:%d@?" % (-rc)
                        else:
                            k = "exit:%d@?" % rc
                    c.key = k
                    if k == "signal:9@?":
                        # SIGKILL without any report and not from our watchdog: the kernel's OOM killer picks its
                        # victims among all processes of the machine.  Not a verdict: run the case again, alone.
                        c.status = "timeout"
            start = index[open_id] + 1
            restarts += 1
            if restarts > max_restarts:
                break
        # re-run timeouts alone, once
        for cid, c in list(cases.items()):
            if c.status != "timeout":
                continue
            outp = os.path.join(workdir, "out.t%d" % cid)
            sanp = os.path.join(workdir, "san.t%d" % cid)
            env["ASAN_OPTIONS"] = ASAN_OPTS + ":log_path=" + sanp
            env["UBSAN_OPTIONS"] = UBSAN_OPTS + ":log_path=" + sanp
            p = subprocess.Popen([exe, scen_path, outp, "0", str(cid)], stdin=subprocess.DEVNULL,
                                 stdout=subprocess.DEVNULL, stderr=subprocess.DEVNULL, env=env,
                                 preexec_fn=_preexec)
            try:
                p.wait(timeout=case_timeout)
                one = {}
                _parse_out(outp, one, [])
                san = _collect_san(sanp) + _read_err(outp)
                if cid in one and one[cid].status == "ok":
                    cases[cid] = one[cid]
                elif cid in one:
                    c2 = one[cid]
                    c2.status = "crash"
                    c2.report = san
                    c2.key = san_key(san) or ("signal:%d@?" % -p.returncode if (p.returncode or 0) < 0
                                              else "exit:%s@?" % p.returncode)
                    cases[cid] = c2
            except subprocess.TimeoutExpired:
                try:
                    os.killpg(p.pid, signal.SIGKILL)
                except OSError:
                    pass
                p.wait()
                _collect_san(sanp)
                _read_err(outp)
                c.status = "hang"
                c.key = "hang@case"
            if os.path.exists(outp):
                os.unlink(outp)
        return cases
    finally:
        if own:
            shutil.rmtree(workdir, ignore_errors=True)


def run_text(exe, text, **kw):
    d = scratch_dir()
    try:
        sp = os.path.join(d, "scen")
        with open(sp, "w") as fh:
            fh.write(text)
        return run_scenario(exe, sp, workdir=d, **kw)
    finally:
        shutil.rmtree(d, ignore_errors=True)
