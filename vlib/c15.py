"""C15: error state, token validation and setters follow the documented contract."""
import random
from . import core, sem, build, run, hist


def _worker(args):
    seed, idx, n_hist, variant = args
    rng = random.Random(seed * 472882049 + idx * 32416190071)
    sh = sem.Shard()
    defs = hist.defn_pool(rng)
    hs = []
    lines = []
    for cid in range(n_hist):
        steps = hist.gen_history(rng, defs, rng.randrange(4, 25), "c15")
        hs.append((cid, steps))
        lines += hist.emit_history(cid, steps)
    exe = build.build(variant)
    tr = run.run_text(exe, "\n".join(lines) + "\n")
    for hc, steps in hs:
        case = tr.get(hc)
        if case is None:
            sh.inconclusive += 1
            continue
        rep = {"scenario": "\n".join(hist.emit_history(0, steps)) + "\n", "variant": variant}
        if case.status != "ok":
            sh.viol.append((case.key or case.status + "@case", "history of %d steps" % len(steps),
                            dict(rep, report=case.report[:4000])))
        outs = case.steps
        ec = {}        # slot -> (code, message) model
        interesting = False
        for i, st in enumerate(steps):
            if i >= len(outs):
                break
            o = outs[i]
            sh.evals += 1
            probs = []
            op = st[0]
            if op == "new":
                ec[st[1]] = 0
                if o.get("ec") != 0:
                    probs.append("error_code_nonzero_on_new_object")
            elif op == "set":
                if o.get("old") != st[4]:
                    probs.append("setter_did_not_return_previous_value:%s" % st[2])
                    probs[-1] += "" 
                sh.count("setter_calls")
                if st[2] == "la" and not (0 <= st[3] <= 2):
                    sh.count("lookahead_out_of_range_set")
            elif op in ("def", "parse"):
                rc = o.get("rc")
                if op == "def":
                    exp = 0 if st[2].good else None
                    if exp == 0 and rc != 0:
                        probs.append("good_definition_failed:%s" % rc)
                    if exp is None and rc == 0:
                        probs.append("bad_definition_accepted")
                else:
                    toks, amode, endc, settings, defn, defined = st[2], st[3], st[4], st[5], st[6], st[7]
                    if amode == 3:
                        exp = 1
                    elif not defined:
                        exp = 2
                    else:
                        codes = set(defn.g.code_of().values())
                        exp = 0
                        for t in toks:
                            if t < 0:
                                break
                            if t not in codes:
                                exp = 17
                                interesting = True
                                lo, hi = min(codes), max(codes)
                                if lo < t < hi:
                                    sh.count("undeclared_code_between_declared_codes")
                                break
                    if rc != exp:
                        probs.append("parse_returned_%s_expected_%s" % (rc, exp))
                    if endc != -1 and rc == 0:
                        sh.count("negative_terminator_other_than_minus_one")
                if rc != 0:
                    ec[st[1]] = rc
                    if o.get("ec") != rc:
                        probs.append("error_code_differs_from_returned_code")
                    if not o.get("em"):
                        probs.append("empty_error_message")
                elif o.get("ec") != ec.get(st[1], 0):
                    probs.append("error_code_changed_by_successful_call")
            elif op == "err":
                if o.get("ec") != ec.get(st[1], 0):
                    probs.append("error_code_not_last_failing_code")
            elif op == "free":
                ec.pop(st[1], None)
            for p in probs:
                sh.viol.append((p + "@" + op, "step %d %s: output %s" % (i, str(st[:5])[:200], str({k: o.get(k) for k in ("rc", "ec", "em", "old")})),
                                dict(rep, step=i)))
        if interesting or any(s[0] == "set" for s in steps):
            sh.nontrivial.add(hash(rep["scenario"]))
    hc, steps = hs[0]
    sh.samples.append({"history": [str(s[:5])[:120] for s in steps][:20]})
    return sh.result()


def check(tier):
    ck = core.Check("C15", tier)
    shards, n = (16, 2500) if tier == "quick" else (256, 8000)
    res = core.pmap(_worker, [(ck.seed, i, n, "asan" if i % 4 != 3 else "asan-small") for i in range(shards)])
    counters = sem.merge(ck, res)
    ck.cov["rule"] = ("random histories of 4-24 calls over up to 3 objects with arbitrary int arguments to every setter "
                      "(incl. INT_MIN/INT_MAX), good and defective definitions, parses with token streams that in 25% "
                      "of cases contain an undeclared code (below, above and between the declared codes), negative "
                      "terminators -1/-2/-100/INT_MIN, allocator modes incl. NULL alloc with non-NULL free; judged by a "
                      "sequential model of the documented contract (error code persistence, returned codes, previous "
                      "values of setters starting from the documented defaults, lookahead clamping). Non-trivial = "
                      "distinct histories containing a setter call or an undeclared token code.")
    ck.assumptions = ["message text is only required to be non-empty"]
    ck.floor = 2000
    ck.require("undeclared codes between declared codes", counters.get("undeclared_code_between_declared_codes", 0), 50)
    ck.require("lookahead values outside 0..2", counters.get("lookahead_out_of_range_set", 0), 100)
    return ck.finish()
