"""C09: lookahead level, set caching and debug level never change any result."""
import random
from . import core, sem, gen, oracle, build, run, recx, ansic
from .gram import G, hx, emit_define, emit_tokens, emit_config

LEVELS = [0, 1, 2, -7, 9]
EXPR = G("E : T # 0 | E '+' T # plus (0 1 2) ; T : F # 0 | T '*' F # mult (0 1 2) ; F : a # fa (0) | '(' E ')' # par (0 1 2) | '(' error ')' # bad")
STMT = G("P : P S # seq (0 1) | S # one (0) ; S : x ';' # xs (0 1) | '{' P '}' # blk (0 1 2) | i c S # if (0 1 2) | i c S e S # ife (0 1 2 3 4) | '{' '}' # empty (0 1) | error ';' # bad")
BRACK = G("S : S '(' S ')' # n (0 1 2 3) | # e | S '(' error ')' # bad (0)")
LONG = {"expr": EXPR, "stmt": STMT, "brackets": BRACK}


def gen_expr(rng, n, depth=0):
    out = []
    while len(out) < n:
        r = rng.random()
        if r < 0.15 and depth < 12 and n - len(out) > 6:
            sub = gen_expr(rng, rng.randrange(1, max(2, min(40, n - len(out) - 2))), depth + 1)
            out += ["'('"] + sub + ["')'"]
        else:
            # repeated fragment
            out += rng.choice([["a"], ["a", "'*'", "a"], ["a", "'*'", "a", "'*'", "a"]])
        out.append(rng.choice(["'+'", "'+'", "'*'"]))
    out.pop()
    return out


def gen_stmt(rng, n, depth=0):
    out = []
    while len(out) < n:
        r = rng.random()
        if r < 0.5:
            out += ["x", "';'"]
        elif r < 0.65 and depth < 10 and n - len(out) > 8:
            out += ["'{'"] + gen_stmt(rng, rng.randrange(2, max(3, min(60, n - len(out) - 2))), depth + 1) + ["'}'"]
        elif r < 0.8:
            out += ["i", "c", "x", "';'"]
        elif r < 0.9:
            out += ["i", "c", "x", "';'", "e", "x", "';'"]
        else:
            out += ["'{'", "'}'"]
    return out


def gen_brack(rng, n, depth=0):
    out = []
    while len(out) < n:
        if rng.random() < 0.5 and depth < 30 and n - len(out) > 4:
            out += ["'('"] + gen_brack(rng, rng.randrange(0, max(1, min(30, n - len(out) - 2))), depth + 1) + ["')'"]
        else:
            out += ["'('", "')'"]
    return out


GENS = {"expr": gen_expr, "stmt": gen_stmt, "brackets": gen_brack}


def canon(step, ci_one):
    """canonical observation of a parse step for cross-level comparison"""
    o = {"rc": step.get("rc"), "err": step.get("err"), "amb": step.get("amb"), "root_null": step.get("root", -1) == -1}
    if step.get("rc") == 0 and step.get("root", -1) != -1 and "tree" in step:
        try:
            probs = oracle.dag_check(step["tree"])
            if probs:
                o["trees"] = "malformed:%s" % probs
            else:
                got, cap = oracle.dag_expand(step["tree"])
                o["trees"] = "capped" if cap else frozenset(got)
        except Exception as e:
            o["trees"] = "error:%s" % e
    elif "th" in step:
        o["trees"] = step["th"]
    return o


def _small_worker(args):
    seed, idx, n_grammars, variant = args
    rng = random.Random(seed * 86028121 + idx * 433494437)
    sh = sem.Shard()
    grams = sem.grammar_stream(rng, n_grammars // 2) + recx.error_grammars(rng, n_grammars - n_grammars // 2)
    cases = []
    cid = 0
    for name, g, strict in grams:
        ins = gen.inputs_for(rng, g, 3, 8, 10)
        rng.shuffle(ins)
        ins = ins[:8]
        if any(recx.ERR in r.rhs for r in g.rules) and g.terms:
            have = set(tuple(w) for w in ins)
            ins += [w for w in recx.reparse_inputs(rng, g, oracle.Ref(g), 16) if tuple(w) not in have]
        for w in ins:
            base = dict(one=rng.randrange(2), cost=rng.randrange(2), rec=rng.randrange(2), match=rng.choice([1, 2, 3]))
            cfgs = [dict(base, la=la) for la in LEVELS]
            if len(w) <= 6:
                cfgs += [dict(base, la=1, dbg=d) for d in (-1, 1, 2, 3, 4, 5, 6)]
            cases.append(sem.CaseInfo(cid, g, strict, w, cfgs, name))
            cid += 1
    tr = sem.run_cases(variant, cases, None, h2=True)
    for ci in cases:
        case = tr.get(ci.cid)
        if case is None:
            sh.inconclusive += 1
            continue
        if case.status != "ok":
            sem.crash_violation(sh, ci, case)
        steps = sem.parse_steps(case)
        if not steps:
            continue
        obs = [canon(s, None) for s in steps]
        ref_la = obs[2] if len(obs) > 2 else obs[0]     # level 2 as reference
        hooks_any = set()
        for i, (s, o) in enumerate(zip(steps, obs)):
            sh.evals += 1
            hk = s.get("hk", {})
            if "2" in hk:
                sh.count("cache_hits_checked", hk["2"][0])
                if hk["2"][5] > 0:
                    sh.viol.append(("cached_set_differs_from_fresh_set@build_pl",
                                    "grammar=%r input=[%s] config=%s mismatching hits=%d" % (
                                        ci.g, " ".join(ci.w), sem.cfg_name(ci.configs[i]), hk["2"][5]), ci.replay(i, {"h2": True})))
            sem.closure_check(sh, ci, i, s)
            sites = sem.hook_site(s)
            hooks_any.update(sites)
        base_i = 1   # la=1 ; debug variants are compared with it
        for i, o in enumerate(obs):
            c = ci.configs[i]
            other = obs[base_i] if "dbg" in c else ref_la
            if o == other:
                continue
            diff = sorted(k for k in o if o.get(k) != other.get(k))
            if any(isinstance(x.get("trees"), str) and x["trees"] == "capped" for x in (o, other)) and diff == ["trees"]:
                sh.inconclusive += 1
                continue
            what = "debug_level" if "dbg" in c else "lookahead"
            site = "-"
            if diff == ["trees"] or diff == ["amb", "trees"]:
                both = set(sem.hook_site(steps[i])) | set(sem.hook_site(steps[base_i if "dbg" in c else 2]))
                if both and not c["one"]:
                    site = "+".join(sorted(both))
            sh.viol.append(("differs_across_%s:%s@%s" % (what, "+".join(diff), site),
                            "grammar=%r input=[%s] config=%s vs reference: %s" % (
                                ci.g, " ".join(ci.w), sem.cfg_name(c),
                                {k: (str(o.get(k))[:150], str(other.get(k))[:150]) for k in diff}), ci.replay(None, {"h2": True})))
        sh.nontrivial.add(hash((ci.g.key(), tuple(ci.w), str(ci.configs[0]))))
    if cases:
        ci = cases[0]
        sh.samples.append({"grammar": repr(ci.g), "input": ci.w, "configs": [sem.cfg_name(c) for c in ci.configs]})
    return sh.result()


def _long_worker(args):
    seed, idx, family, n, variant = args
    rng = random.Random(seed * 104395301 + idx * 217645199)
    sh = sem.Shard()
    exe = build.build(variant)
    lines = []
    if family in LONG:
        g = LONG[family]
        w = GENS[family](rng, n)
        mode = idx % 3
        if mode == 1 and len(w) > 10:
            # 1-6 corrupted tokens: same error reports and recoveries on every level, and the goto cache
            # keeps entries recorded before a recovery rewrote the parser list
            for _ in range(rng.choice([1, 1, 2, 3, 6])):
                i = rng.randrange(len(w))
                w[i] = rng.choice(g.term_names())
        elif mode == 2 and len(w) > 100:
            # a burst of 2-6 garbage tokens near the start: the recovery ignores several tokens, so parser-list
            # indices and token numbers differ for the whole repetitive rest of the input
            i = rng.randrange(2, max(3, len(w) // 20))
            for j in range(i, i + rng.randrange(2, 7)):
                w[j] = rng.choice(g.term_names())
        code = g.code_of()
        toks = [code[t] for t in w]
        for k, la in enumerate((0, 1, 2)):
            lines += ["C %d" % k, "new 0", "set 0 la %d" % la] + emit_define(g, 0, 1) + ["h2 1"] + emit_tokens(toks) + \
                     ["parse 0 2 h", "free 0"]
        ntok = len(toks)
        label = "%s[%d tokens]" % (family, ntok)
    else:
        a = ansic.ensure()
        for k, la in enumerate((0, 1, 2)):
            lines += ["C %d" % k, "new 0", "set 0 la %d" % la, "desc 0 1 " + hx(a["text"]), "h2 1",
                      "kfile " + a["toks"][family], "parse 0 2 h", "free 0"]
        ntok = a["ntoks"][family]
        label = "ansic:%s[%d tokens]" % (family, ntok)
    tr = run.run_text(exe, "\n".join(lines) + "\n", case_timeout=600)
    obs = []
    for k in range(3):
        case = tr.get(k)
        sh.evals += 1
        rep = {"scenario": "\n".join(lines) + "\n" if len(lines) < 400 else None, "variant": variant, "workload": label,
               "seed": seed, "idx": idx}
        if case is None:
            sh.inconclusive += 1
            continue
        if case.status != "ok":
            sh.viol.append((case.key or case.status + "@case", "workload=%s level=%d" % (label, k), dict(rep, report=case.report[:3000])))
            continue
        p = [s for s in case.steps if s.get("op") == "parse"][0]
        hk = p.get("hk", {})
        if "2" in hk:
            sh.count("cache_hits_checked", hk["2"][0])
            sh.count("cache_hits_with_far_origins", hk["2"][6])
            if hk["2"][5] > 0:
                sh.viol.append(("cached_set_differs_from_fresh_set@build_pl", "workload=%s level=%d mismatching hits=%d" % (
                    label, k, hk["2"][5]), rep))
        if "20" in hk:
            sh.count("sets_built", hk["20"][4])
        sh.count("tokens_parsed", ntok)
        obs.append((k, {x: p.get(x) for x in ("rc", "err", "amb", "th", "nn", "root")}))
    for k, o in obs[1:]:
        if o != obs[0][1]:
            diff = [x for x in o if o[x] != obs[0][1][x]]
            sh.viol.append(("differs_across_lookahead:%s@long_input" % "+".join(diff),
                            "workload=%s level %d vs level %d: %s" % (label, k, obs[0][0], {x: (o[x], obs[0][1][x]) for x in diff}), rep))
    sh.nontrivial.add(label + str(idx))
    sh.samples.append({"workload": label, "levels": [0, 1, 2], "result_hash": obs[0][1].get("th") if obs else None})
    return sh.result()


def check(tier):
    ck = core.Check("C09", tier)
    jobs_small = [(ck.seed, i, 40 if tier == "quick" else 50, "asan" if i % 4 != 3 else "asan-small") for i in range(16 if tier == "quick" else 480)]
    jobs_long = []
    sizes = [2000, 5000, 12000] if tier == "quick" else [2000, 5000, 12000, 30000, 50000, 50000]
    i = 0
    for fam in ("expr", "stmt", "brackets"):
        for n in sizes:
            jobs_long.append((ck.seed, i, fam, n, "plain" if n > 5000 else "asan"))
            i += 1
    jobs_long.append((ck.seed, i, "test.i", 0, "plain"))
    jobs_long.append((ck.seed, i + 1, "test1.i", 0, "plain" if tier == "quick" else "asan"))
    res = core.pmap(_dispatch, [("s", j) for j in jobs_small] + [("l", j) for j in jobs_long])
    counters = sem.merge(ck, res)
    ck.cov["rule"] = ("(i) small cases: pool/random/mutant/error grammars x inputs up to 10 tokens x random result-"
                      "selecting flags, run with lookahead 0,1,2,-7,9 (and, for inputs <=6 tokens, debug levels "
                      "-1,1..6 at lookahead 1); observations (rc, callbacks, ambiguity flag, denoted tree set with "
                      "costs) must equal those of level 2 (debug: of debug 0). (ii) long inputs (2k-12k tokens quick, "
                      "up to 50k thorough) over expression, statement and bracket grammars with random nesting and "
                      "repeated fragments (the grammars have `error' rules), one third clean, one third with 1-6 corrupted tokens, "
                      "one third with a burst of 2-6 garbage tokens near the start, levels 0/1/2 compared by tree hash. (iii) "
                      "the ANSI C grammar on test/test.i (75898 tokens) and compare_parsers/test1.i (64853 tokens). "
                      "In all runs hook H2 recomputes the successor set on every goto-cache hit. Non-trivial = "
                      "distinct small cases plus every long workload.")
    ck.assumptions = ["H2 compares the hash-consed set pointer of a fresh computation with the cached one",
                      "long inputs are compared across levels by a structural hash of the dumped tree"]
    ck.floor = 200
    ck.require("goto-cache hits checked by H2", counters.get("cache_hits_checked", 0), 10000)
    ck.require("hits whose set has start situations with distance > 1", counters.get("cache_hits_with_far_origins", 0), 1000)
    return ck.finish()


def _dispatch(a):
    kind, j = a
    return _small_worker(j) if kind == "s" else _long_worker(j)
