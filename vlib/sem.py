"""Common pipeline of the semantic checks (C01-C09): generate (grammar, input)
cases, run every configuration on a fresh grammar object through the driver,
judge the transcripts against the reference models."""
import itertools, os, random, shutil, json
from . import build, core, run, gen, oracle
from .gram import Grammar, emit_define, emit_config, emit_tokens, NIL

ALL_CONFIGS = [dict(la=la, one=one, cost=cost, rec=rec)
               for la in (0, 1, 2) for one in (1, 0) for cost in (0, 1) for rec in (0, 1)]


def cfg_name(c):
    return "la%d,one%d,cost%d,rec%d%s%s" % (c["la"], c["one"], c["cost"], c["rec"],
                                           (",m%d" % c["match"]) if "match" in c else "",
                                           (",am%d" % c["amode"]) if "amode" in c else "")


PAD_COUNTS = [61, 62, 63, 64, 125, 126, 127, 128, 190, 31, 32]


def pad_terminals(g, cid):
    """Two cases of three declare 31-190 extra terminals that no rule and no input uses, in front of, between or
    behind the real ones: the library's terminal sets (FIRST, FOLLOW, lookahead contexts) then span several
    machine words and the real terminals -- and `error' -- sit at different bit positions, next to word
    boundaries.  Nothing observable may change."""
    if cid % 3 == 2:
        return g
    k = PAD_COUNTS[(cid // 3) % len(PAD_COUNTS)]
    mode = (cid // 3) % 3 if cid % 3 == 0 else 1
    pads = [("zz%d" % i, 100000 + i) for i in range(k)]
    if mode == 0:
        terms = pads + list(g.terms)
    elif mode == 1:
        terms = list(g.terms) + pads
    else:
        h = len(g.terms) // 2
        terms = list(g.terms[:h]) + pads + list(g.terms[h:])
    from .gram import Grammar
    return Grammar(terms, g.rules)


def emit_case(cid, g, strict, w, configs, h2=False):
    code = g.code_of()
    toks = [code[t] for t in w]
    lines = ["C %d" % cid]
    gl = emit_define(pad_terminals(g, cid), 0, strict)
    tid = 0
    for i, c in enumerate(configs):
        lines.append("new 0")
        lines += emit_config(0, la=c["la"], one=c["one"], cost=c["cost"], rec=c["rec"], match=c.get("match"),
                             dbg=c.get("dbg"))
        lines += gl
        if h2:
            lines.append("h2 1")
        if (cid + i) % 3 == 0:
            # every third parse is the second one of its object: a preliminary parse of the same (or a shortened)
            # input, whose tree is released before the judged parse starts; the verdicts must not notice
            lines += emit_tokens(toks if (cid + i) % 2 == 0 else toks[:len(toks) // 2])
            lines.append("parse 0 %d nw" % c.get("amode", 2))
            lines.append("ftree %d %d" % (tid, i % 2))
            tid += 1
        lines += emit_tokens(toks)
        lines.append("parse 0 %d f" % c.get("amode", 2))
        tid += 1
        lines.append("free 0")
    return lines


def parse_steps(case):
    return [s for s in case.steps if s.get("op") == "parse"]


def to_tree(nodes, nid=0, memo=None):
    """nested tuple of a dumped tree without ALT nodes; raises on ALT"""
    if memo is None:
        memo = {}
    if nid in memo:
        return memo[nid]
    nd = nodes[nid]
    k = nd[0]
    if k == 'N':
        r = 'N'
    elif k == 'E':
        r = 'E'
    elif k == 'T':
        r = ('T', nd[1], nd[2])
    elif k == 'A':
        r = ('A', nd[1], nd[2], tuple(to_tree(nodes, c, memo) for c in nd[3]))
    else:
        raise oracle.DagError("unexpected node %s" % k)
    memo[nid] = r
    return r


def hook_site(step):
    hk = step.get("hk", {})
    sites = []
    # event 3 (untranslated symbol with another origin) is evidence only since D10 was repaired
    if "4" in hk:
        sites.append("reuse_of_split_node")
    return sites


def closure_check(sh, ci, i, st):
    """hook H3 (event 11): for every new set core the library re-derives, from each start situation followed by
    nullable symbols, the situations with the dot moved over them and looks them up in the core with that start
    situation as the parent; a = number of lookups that failed"""
    e = st.get("hk", {}).get("11")
    if e is None:
        return
    sh.count("set_cores_self_checked", e[0])
    sh.count("nullable_advances_looked_up", e[2])
    if e[1] > 0:
        sh.viol.append(("set_core_lacks_derived_situation@expand_new_start_set",
                        "grammar=%r input=[%s] config=%s: up to %d derived situation(s) missing in one core" % (
                            ci.g, " ".join(ci.w), cfg_name(ci.configs[i]), e[1]), ci.replay(i)))


class CaseInfo:
    __slots__ = ("cid", "g", "strict", "w", "configs", "gname")

    def __init__(self, cid, g, strict, w, configs, gname=""):
        self.cid, self.g, self.strict, self.w, self.configs, self.gname = cid, g, strict, w, configs, gname

    def replay(self, ci=None, extra=None):
        o = {"grammar": self.g.to_json(), "grammar_text": repr(self.g), "strict": self.strict, "input": self.w,
             "gname": self.gname, "cid": self.cid}
        if ci is not None:
            o["config"] = self.configs[ci]
        if extra:
            o.update(extra)
        return o


class Shard:
    """Per-worker accumulator."""

    def __init__(self):
        self.evals = 0
        self.nontrivial = set()
        self.viol = []
        self.counters = {}
        self.samples = []
        self.inconclusive = 0

    def count(self, k, n=1):
        self.counters[k] = self.counters.get(k, 0) + n

    def result(self):
        return {"evals": self.evals, "nontrivial": list(self.nontrivial), "viol": self.viol,
                "counters": self.counters, "samples": self.samples[:3], "inconclusive": self.inconclusive}


def run_cases(variant, cases, configs_of, h2=False):
    """cases: list of CaseInfo.  Returns {cid: run.Case}"""
    exe = build.build(variant)
    d = run.scratch_dir()
    try:
        sp = os.path.join(d, "scen")
        with open(sp, "w") as fh:
            for ci in cases:
                fh.write("\n".join(emit_case(ci.cid, ci.g, ci.strict, ci.w, ci.configs, h2=h2)))
                fh.write("\n")
        return run.run_scenario(exe, sp, workdir=d, case_ids=[c.cid for c in cases])
    finally:
        shutil.rmtree(d, ignore_errors=True)


def crash_violation(sh, ci, case):
    """record crash/hang/exit of a case as a violation of C12-kind keys"""
    done = len(parse_steps(case))
    cfg = ci.configs[done] if done < len(ci.configs) else None
    sh.viol.append((case.key or ("%s@case" % case.status),
                    "grammar=%r input=%s config=%s" % (ci.g, " ".join(ci.w), cfg and cfg_name(cfg)),
                    ci.replay(done if cfg else None, {"report": case.report[:3000], "status": case.status})))


def merge(ck, results, key_fn=None):
    nt = set()
    counters = {}
    for r in results:
        ck.cov["evaluations"] += r["evals"]
        for x in r["nontrivial"]:
            nt.add(tuple(x) if isinstance(x, list) else x)
        for k, v in r["counters"].items():
            counters[k] = counters.get(k, 0) + v
        for v in r["viol"]:
            ck.violation(*v)
        for s in r["samples"]:
            ck.sample(s)
        ck.inconclusive += r["inconclusive"]
    ck.cov["distinct_nontrivial"] = len(nt)
    ck.cov["observed"] = counters
    return counters


def grammar_stream(rng, n, families=("pool", "random", "mutant", "random", "ctx", "items", "chain"), error_p=0.0, strict=None, **kw):
    """Yield (name, g, strict) accepted grammars."""
    pool = gen.pool()
    out = []
    i = 0
    if os.environ.get("VERIF_FAMILIES"):          # experiments only
        families = tuple(os.environ["VERIF_FAMILIES"].split(","))
    while len(out) < n:
        fam = families[i % len(families)]
        i += 1
        if fam == "pool":
            name, g = pool[rng.randrange(len(pool))]
            s = rng.choice([0, 1]) if strict is None else strict
            if oracle.wf(g, s):
                s = 0
                if oracle.wf(g, s):
                    continue
            out.append((name, g, s))
        elif fam == "random":
            g, s = gen.accepted_random_grammar(rng, strict=strict, error_p=error_p, **kw)
            out.append(("random", g, s))
        elif fam in ("ctx", "items", "overlap", "chain"):
            g = {"ctx": gen.context_chain_grammar, "items": gen.item_list_grammar, "overlap": gen.overlap_grammar,
                 "chain": gen.tail_chain_grammar}[fam](rng)
            s = 1 if not oracle.wf(g, 1) else 0
            if strict is not None and s != strict:
                continue
            if oracle.wf(g, s):
                continue
            out.append(({"ctx": "context_chain", "items": "item_list", "overlap": "overlap", "chain": "tail_chain"}[fam], g, s))
        else:
            name, g = pool[rng.randrange(len(pool))]
            for _ in range(rng.randrange(1, 4)):
                g2 = gen.mutate(rng, g)
                s = rng.choice([0, 1]) if strict is None else strict
                if not oracle.wf(g2, s):
                    g = g2
            s = 1 if not oracle.wf(g, 1) else 0
            if strict is not None and s != strict:
                if oracle.wf(g, strict):
                    continue
                s = strict
            if oracle.wf(g, s):
                continue
            out.append(("mutant:" + name, g, s))
    return out
