"""C11: a textual description defines exactly the grammar its syntax denotes."""
import random, re
from . import core, sem, gen, oracle, build, run, desc
from .gram import Grammar, Rule, NIL, hx, emit_define, emit_tokens, emit_config

DICT = ["TERM", ";", ":", "|", "#", "-", "(", ")", "=", "'", "'a'", "/*", "*/", "error", " ", "\n", "0", "1", "256",
        "2147483647", "2147483648", "99999999999", "A", "a", "$S", "$eof", "\t", "/", "*", "\r", "\x80", "\xff"]

CONFIGS = [dict(la=1, one=1, cost=0, rec=0), dict(la=0, one=0, cost=0, rec=1), dict(la=2, one=0, cost=1, rec=0)]


def printable_grammar(rng):
    """an accepted or slightly defective grammar that can be printed"""
    for _ in range(100):
        k = rng.random()
        if k < 0.5:
            g, s = gen.accepted_random_grammar(rng, error_p=0.05)
        elif k < 0.8:
            nm, g = gen.pool()[rng.randrange(len(gen.pool()))]
            if rng.random() < 0.5:
                g = gen.mutate(rng, g)
            s = rng.randrange(2)
        else:
            g = gen.random_grammar(rng, error_p=0.05)
            s = rng.randrange(2)
        if desc.printable(g) and g.rules:
            return g, s
    return gen.pool()[0][1], 1


def mutate_text(rng, t):
    n = rng.choice([1, 1, 1, 2, 3])
    for _ in range(n):
        op = rng.randrange(6)
        if op == 0 and t:
            i = rng.randrange(len(t))
            t = t[:i] + t[i + 1:]
        elif op == 1:
            i = rng.randrange(len(t) + 1)
            t = t[:i] + rng.choice(DICT) + t[i:]
        elif op == 2 and t:
            i = rng.randrange(len(t))
            t = t[:i] + chr(rng.randrange(1, 256)) + t[i + 1:]
        elif op == 3 and t:
            t = t[:rng.randrange(len(t) + 1)]
        elif op == 4 and t:
            i = rng.randrange(len(t))
            j = min(len(t), i + rng.randrange(1, 6))
            t = t[:i] + t[j:]
        elif t:
            i = rng.randrange(len(t))
            j = min(len(t), i + rng.randrange(1, 8))
            t = t[:j] + t[i:j] + t[j:]
    return t.replace("\x00", " ")


def inputs_for(rng, g, n):
    try:
        ref = oracle.Ref(g)
        ins = gen.inputs_for(rng, g, 3, 6, 8)
    except Exception:
        ins = [[]]
    rng.shuffle(ins)
    return ins[:n]


def emit_twin_case(cid, text, den, strict, inputs):
    """slot 0 defined by description, slot 1 by callbacks; same parses on both"""
    lines = ["C %d" % cid]
    for slot in (0, 1):
        for ci, c in enumerate(CONFIGS):
            lines.append("new %d" % slot)
            lines += emit_config(slot, la=c["la"], one=c["one"], cost=c["cost"], rec=c["rec"])
            if slot == 0:
                lines.append("desc 0 %d %s" % (strict, hx(text)))
            else:
                lines += emit_define(den, 1, strict)
            if ci == 0:
                lines.append("err %d" % slot)
            for w in inputs:
                lines += emit_tokens(w)
                lines.append("parse %d 2 f" % slot)
            lines.append("free %d" % slot)
    return lines


def split_slots(case):
    a, b = [], []
    for s in case.steps:
        if s.get("slot") == 0 or (s.get("op") in ("parse",) and s.get("slot") == 0):
            a.append(s)
        elif s.get("slot") == 1:
            b.append(s)
    return a, b


def comparable(s):
    o = {k: v for k, v in s.items() if k in ("op", "rc", "amb", "err", "root", "tree", "ec", "null", "old", "w", "v")}
    return o


def _worker(args):
    seed, idx, n_valid, n_mut, variant = args
    rng = random.Random(seed * 982451653 + idx * 57885161)
    sh = sem.Shard()
    cases = []
    lines = []
    cid = 0
    texts = []
    for _ in range(n_valid):
        g, strict = printable_grammar(rng)
        implicit = rng.random() < 0.5
        text, den = desc.print_desc(rng, g, implicit=implicit)
        kind, rd = desc.read_desc(text)
        if kind != "valid":
            raise core.HarnessError("printer produced a text the reference reader calls %s (%s): %r" % (kind, rd, text))
        nk = lambda r: (r.lhs, tuple(r.rhs), r.anode, r.cost, tuple(r.transl or ()))
        if sorted(rd.terms) != sorted(den.terms) or [nk(r) for r in rd.rules] != [nk(r) for r in den.rules]:
            raise core.HarnessError("reader/printer disagree on %r: %r vs %r" % (text, rd, den))
        texts.append((text, strict))
        codes = den.code_of()
        ins = [[codes[t] for t in w] for w in inputs_for(rng, den, 3)]
        cases.append((cid, "valid", text, den, strict, ins, implicit))
        lines += emit_twin_case(cid, text, den, strict, ins)
        cid += 1
    scen = {}
    for _ in range(n_mut):
        text, strict = texts[rng.randrange(len(texts))]
        if rng.random() < 0.1:
            mt = "".join(chr(rng.randrange(1, 256)) for _ in range(rng.randrange(0, 40)))
        else:
            mt = mutate_text(rng, text)
        kind, rd = desc.read_desc(mt)
        if kind == "valid":
            codes = rd.code_of()
            try:
                ins = [[codes[t] for t in w] for w in inputs_for(rng, rd, 2)]
            except Exception:
                ins = [[]]
            cases.append((cid, "mutant-valid", mt, rd, strict, ins, None))
            lines += emit_twin_case(cid, mt, rd, strict, ins)
        else:
            cases.append((cid, "mutant-" + kind, mt, rd, strict, [], None))
            # half of the rejected texts are given to an object that is not the one the library touched last:
            # another object was created after it, and is alive or already freed when the text arrives
            L = ["new 0"]
            other = rng.randrange(4)
            if other >= 2:
                L.append("new 1")
                if other == 3:
                    L.append("free 1")
            L += ["desc 0 %d %s" % (strict, hx(mt)), "k 1 2", "parse 0 2 n", "free 0"]
            if other == 2:
                L.append("free 1")
            scen[cid] = L
            lines += ["C %d" % cid] + L
        cid += 1
    exe = build.build(variant)
    tr = run.run_text(exe, "\n".join(lines) + "\n")
    for cid, kind, text, den, strict, ins, implicit in cases:
        case = tr.get(cid)
        sh.evals += 1
        rep = {"scenario": None, "text": text, "strict": strict, "kind": kind}
        if case is None:
            sh.inconclusive += 1
            continue
        rep["scenario"] = "\n".join(emit_twin_case(0, text, den, strict, ins)) + "\n" if isinstance(den, Grammar) else \
            "\n".join(["C 0"] + scen.get(cid, ["new 0", "desc 0 %d %s" % (strict, hx(text)), "free 0"])) + "\n"
        if case.status != "ok":
            sh.viol.append((case.key or case.status + "@case", "kind=%s text=%r" % (kind, text[:300]),
                            dict(rep, report=case.report[:3000])))
            continue
        sh.count(kind)
        if kind in ("valid", "mutant-valid"):
            a, b = split_slots(case)
            if len(a) != len(b):
                sh.viol.append(("transcript_length_differs@-", "text=%r" % text[:300], rep))
                continue
            ok = True
            for x, y in zip(a, b):
                cx, cy = comparable(x), comparable(y)
                if x.get("op") == "desc":
                    cx["op"] = "read"
                if cx != cy:
                    what = "return_code" if x.get("op") in ("desc", "read") else x.get("op")
                    sh.viol.append(("description_differs_from_twin:%s@-" % what,
                                    "kind=%s text=%r description side=%s twin side=%s denoted=%r" % (
                                        kind, text[:400], str(cx)[:300], str(cy)[:300], den), rep))
                    ok = False
                    break
            d0 = [s for s in a if s.get("op") == "desc"][0]
            if d0["rc"] == 0:
                sh.count("valid_accepted")
                feat = (implicit or kind == "mutant-valid", "'" in text, any(r.anode for r in den.rules))
                if kind == "valid" and all(feat):
                    sh.nontrivial.add(hash(text))
                elif kind == "mutant-valid":
                    sh.nontrivial.add(hash(text))
            else:
                sh.count("valid_rejected_like_twin")
        else:
            d0 = [s for s in case.steps if s.get("op") == "desc"][0]
            p0 = [s for s in case.steps if s.get("op") == "parse"][0]
            rc = d0["rc"]
            nlines = text.count("\n") + 1
            if kind == "mutant-invalid":
                if rc == 0:
                    sh.viol.append(("invalid_description_accepted@-", "text=%r reader says: %s" % (text[:400], den), rep))
                elif not (3 <= rc <= 16):
                    sh.viol.append(("undocumented_code:%d@-" % rc, "text=%r" % text[:400], rep))
                elif rc == 3:
                    m = re.search(r"ln (-?\d+)", d0["em"])
                    if not m or not (1 <= int(m.group(1)) <= nlines):
                        sh.viol.append(("line_number_outside_text@-", "msg=%r lines=%d text=%r" % (d0["em"], nlines, text[:400]), rep))
                    sh.count("syntax_error_reported")
                if rc != 0 and p0["rc"] != 2:
                    sh.viol.append(("parse_after_failed_description_not_refused@-", "text=%r" % text[:300], rep))
                if len(text) > 0 and sum(1 for c in text if c.isalnum()) * 5 >= len(text):
                    sh.nontrivial.add(hash(text))
            elif kind == "mutant-valid_error":
                if rc != den:
                    sh.viol.append(("different_codes_for_one_terminal_not_reported@-", "rc=%d text=%r" % (rc, text[:400]), rep))
            else:
                if not (rc == 0 or 3 <= rc <= 16):
                    sh.viol.append(("undocumented_code:%d@-" % rc, "text=%r" % text[:400], rep))
    if cases:
        c = cases[0]
        sh.samples.append({"kind": c[1], "text": c[2], "strict": c[4], "denoted": repr(c[3]), "inputs": c[5]})
        c = cases[-1]
        sh.samples.append({"kind": c[1], "text": c[2][:300], "reader_verdict": repr(c[3])[:200]})
    return sh.result()


def check(tier):
    ck = core.Check("C11", tier)
    shards, nv, nm = (16, 400, 2000) if tier == "quick" else (64, 1600, 16000)
    res = core.pmap(_worker, [(ck.seed, i, nv, nm, "asan" if i % 4 != 3 else "asan-small") for i in range(shards)])
    counters = sem.merge(ck, res)
    ck.cov["rule"] = ("valid texts: accepted/mutated/raw printable grammars printed with random whitespace, newlines, "
                      "comments, optional semicolons, TERM sections split and placed anywhere, explicit or implicit "
                      "codes, same-code redeclaration, all translation forms; each is defined on one object by "
                      "yaep_parse_grammar and on a twin by yaep_read_grammar with the denoted grammar, then both parse "
                      "the same token lists under 3 configurations and the transcripts are compared. Mutants: 1-3 "
                      "byte-level edits (delete, insert from a dictionary, replace, truncate, cut, duplicate) or "
                      "random bytes; the independent reader classifies them valid (twin comparison again), invalid "
                      "(non-zero documented code, line number inside the text, object refuses to parse) or grey "
                      "(documented code or 0, no crash). Non-trivial = distinct valid texts with implicit codes, a "
                      "character constant and an abstract node, distinct still-valid mutants, and invalid mutants "
                      "that are still >=20% alphanumeric.")
    ck.assumptions = ["reference reader vlib/desc.py written from doc/yaep.txt; constructs the manual does not settle "
                      "(node without parentheses, repeated declaration without code, 8-bit character constants, "
                      "explicit codes inside the implicit range, INT_MAX as a number) are grey: only no-crash is required"]
    ck.floor = 1000
    ck.require("valid texts accepted", counters.get("valid_accepted", 0), 500)
    ck.require("still-valid mutants", counters.get("mutant-valid", 0), 50)
    ck.require("invalid mutants", counters.get("mutant-invalid", 0), 500)
    return ck.finish()
