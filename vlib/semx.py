"""Judges and check drivers of C02-C05 (trees, DAGs, costs, ambiguity flag)."""
import random
from . import core, sem, gen, oracle
from .gram import NIL


def cfgs(las=(0, 1, 2), ones=(1,), costs=(0,), recs=(0,), amodes=(2,)):
    return [dict(la=la, one=o, cost=c, rec=r, amode=a) for la in las for o in ones for c in costs for r in recs
            for a in amodes]


def shadow_bad(sh, ci, i, st):
    for b in st.get("bad", []):
        sh.viol.append(("shadow:%s@parse" % b[0], "grammar=%r input=[%s] config=%s bad=%s" % (
            ci.g, " ".join(ci.w), sem.cfg_name(ci.configs[i]), b), ci.replay(i)))


def ref_for(ref, w):
    ref.prepare([(t, i) for i, t in enumerate(w)])
    T = ref.root_translations()
    return T


def interesting_transl(g, an):
    for r in g.rules:
        tr = r.transl or []
        n = len(r.rhs)
        real = [e for e in tr if e != NIL]
        if r.anode is not None and (NIL in tr or real != sorted(real) or (len(real) < n and n > 0)):
            return True
        if r.anode is None and real and r.rhs[real[0]] in an.nullable:
            return True
    return False


# ------------------------------------------------------------------ C02
def judge_c02(sh, ci, case, ref, ctx):
    if not ref.sentence(ci.w):
        return
    T = ref_for(ref, ci.w)
    Tset = set(T)
    inter = ctx.setdefault(("it", id(ci.g)), interesting_transl(ci.g, ref.an))
    for i, st in enumerate(sem.parse_steps(case)):
        c = ci.configs[i]
        sh.evals += 1
        shadow_bad(sh, ci, i, st)
        if st["rc"] != 0 or st.get("root", -1) == -1 or st["err"]:
            sh.count("not_judged_recognition_differs")   # C01's business
            continue
        nodes = st["tree"]
        kinds = [n[0] for n in nodes]
        probs = []
        if 'L' in kinds:
            probs.append("alt_node_in_single_tree")
        if kinds.count('N') > 1:
            probs.append("nil_node_not_single")
        if kinds.count('E') > 1:
            probs.append("error_node_not_single")
        if 'X' in kinds:
            probs.append("bad_node")
        if not probs:
            t = sem.to_tree(nodes)
            if c.get("cost"):
                # under the cost flag the fields hold totals; whether they add up and are minimal is C04's business
                t, ok = oracle.uncost(t)
                if not ok:
                    sh.count("not_judged_cost_fields")
                    continue
            if t not in Tset:
                if ref.capped or ref.cyclic:
                    sh.inconclusive += 1
                else:
                    probs.append("tree_not_a_translation")
        for p in probs:
            sh.viol.append((p + "@-", "grammar=%r input=[%s] config=%s got=%s expected_one_of=%s" % (
                ci.g, " ".join(ci.w), sem.cfg_name(c), oracle.show(sem.to_tree(nodes)) if 'L' not in kinds and 'X' not in kinds else kinds,
                [oracle.show(x) for x in T[:4]]), ci.replay(i)))
        if inter and len(nodes) >= 3:
            sh.nontrivial.add(hash((ci.g.key(), tuple(ci.w), c["la"], c["rec"], c["amode"])))
        sh.count("trees_checked")
        if len(T) > 1:
            sh.count("trees_of_ambiguous_inputs")
    if len(sh.samples) < 2 and T:
        sh.samples.append({"grammar": repr(ci.g), "input": ci.w, "reference_translations": [oracle.show(x) for x in T[:3]]})


# ------------------------------------------------------------------ C03
def judge_c03(sh, ci, case, ref, ctx):
    if not ref.sentence(ci.w):
        return
    T = ref_for(ref, ci.w)
    Tset = set(T)
    for i, st in enumerate(sem.parse_steps(case)):
        c = ci.configs[i]
        sh.evals += 1
        shadow_bad(sh, ci, i, st)
        sem.closure_check(sh, ci, i, st)
        if st["rc"] != 0 or st.get("root", -1) == -1 or st["err"]:
            sh.count("not_judged_recognition_differs")
            continue
        nodes = st["tree"]
        sites = sem.hook_site(st)
        for s in sites:
            sh.count("hook_" + s)
        if not sites:
            sh.count("parses_without_attribution_event")
        probs = oracle.dag_check(nodes)
        keys = []
        detail = ""
        if probs:
            keys += ["dag:%s@-" % p for p in sorted(set(probs))]
        else:
            got, gcap = oracle.dag_expand(nodes)
            spurious = got - Tset
            missing = Tset - got
            if spurious and not (ref.capped or ref.cyclic):
                keys.append("spurious_translation@-")
                detail = "spurious=%s" % [oracle.show(x) for x in list(spurious)[:2]]
            if missing and not gcap and not ref.cyclic:
                keys.append("missing_translation@%s" % ("+".join(sites) if sites else "-"))
                detail += " missing=%s (%d of %d denoted)" % ([oracle.show(x) for x in list(missing)[:2]], len(got & Tset), len(Tset))
            if gcap or ref.capped:
                sh.count("capped")
            if len(got) >= 2:
                sh.count("dags_with_alternatives")
            if any(n[0] == 'L' for n in nodes):
                sh.count("dags_with_alt_nodes")
        for k in keys:
            sh.viol.append((k, "grammar=%r input=[%s] config=%s %s" % (ci.g, " ".join(ci.w), sem.cfg_name(c), detail),
                            ci.replay(i)))
        if len(T) >= 2:
            sh.nontrivial.add(hash((ci.g.key(), tuple(ci.w), c["la"])))
            if not sites:
                sh.count("nontrivial_without_attribution_event")
    if len(sh.samples) < 2 and len(T) >= 2:
        sh.samples.append({"grammar": repr(ci.g), "input": ci.w, "n_translations": len(T),
                           "reference_translations": [oracle.show(x) for x in T[:3]]})


# ------------------------------------------------------------------ C04
def judge_c04(sh, ci, case, ref, ctx):
    if not ref.sentence(ci.w):
        return
    T = ref_for(ref, ci.w)
    if ref.capped or ref.cyclic:
        sh.inconclusive += 1
        return
    costs = [oracle.tree_cost(t) for t in T]
    mn = min(costs)
    argmin = set(t for t, c in zip(T, costs) if c == mn)
    for i, st in enumerate(sem.parse_steps(case)):
        c = ci.configs[i]
        sh.evals += 1
        shadow_bad(sh, ci, i, st)
        sem.closure_check(sh, ci, i, st)
        if st["rc"] != 0 or st.get("root", -1) == -1 or st["err"]:
            sh.count("not_judged_recognition_differs")
            continue
        nodes = st["tree"]
        sites = sem.hook_site(st)
        site = "+".join(sites) if sites else "-"
        keys = []
        detail = ""
        probs = oracle.dag_check(nodes)
        if probs:
            keys += ["dag:%s@-" % p for p in sorted(set(probs))]
        else:
            got, gcap = oracle.dag_expand(nodes)
            if gcap:
                sh.inconclusive += 1
                continue
            own = set()
            totals = set()
            for t in got:
                u, ok = oracle.uncost(t)
                if not ok:
                    keys.append("cost_field_not_additive@-")
                own.add(u)
                totals.add(t[2] if isinstance(t, tuple) and t[0] == 'A' else 0)
            if c["one"] and len(got) != 1:
                keys.append("several_trees_for_one_parse@-")
            notmin = [u for u in own if u not in argmin]
            if notmin:
                if all(u in set(T) for u in notmin):
                    keys.append("nonminimal_translation@%s" % site)
                else:
                    keys.append("cost_fields_or_tree_wrong@%s" % site)
                detail = "got=%s min_cost=%d" % ([oracle.show(x) for x in notmin[:2]], mn)
            elif not c["one"] and own != argmin:
                keys.append("minimal_translation_missing@%s" % site)
                detail = "missing=%s" % [oracle.show(x) for x in list(argmin - own)[:2]]
            if totals and totals != {mn} and not notmin:
                keys.append("root_cost_not_minimum@-")
                detail += " root_costs=%s min=%d" % (sorted(totals), mn)
        for k in sorted(set(keys)):
            sh.viol.append((k, "grammar=%r input=[%s] config=%s %s" % (ci.g, " ".join(ci.w), sem.cfg_name(c), detail),
                            ci.replay(i)))
        if len(T) >= 2 and len(set(costs)) >= 2:
            sh.nontrivial.add(hash((ci.g.key(), tuple(ci.w), c["la"], c["one"], c["amode"])))
        if len(T) >= 2 and len(argmin) >= 2:
            sh.count("cases_with_cost_ties")
        if len(T) == 1:
            sh.count("unambiguous_inputs")
        shared = sum(1 for n in nodes if n[0] == 'A')
        sh.count("parses_checked")
    if len(sh.samples) < 2 and len(T) >= 2 and len(set(costs)) >= 2:
        sh.samples.append({"grammar": repr(ci.g), "input": ci.w, "costs_of_translations": sorted(costs)[:8], "minimum": mn})


# ------------------------------------------------------------------ C05
def judge_c05(sh, ci, case, ref, ctx):
    if not ref.sentence(ci.w):
        return None
    T = ref_for(ref, ci.w)
    nd = ref.root_count()
    if ref.cyclic:
        sh.inconclusive += 1
        return None
    for i, st in enumerate(sem.parse_steps(case)):
        c = ci.configs[i]
        sh.evals += 1
        if st["rc"] != 0 or st.get("root", -1) == -1 or st["err"]:
            sh.count("not_judged_recognition_differs")
            continue
        amb = st["amb"]
        key = None
        if amb not in (0, 1) and amb == -12345:
            key = "ambiguous_p_not_written@-"
        elif amb != 0 and nd == 1:
            key = "flag_set_for_single_derivation@-"
        elif amb == 0 and len(T) >= 2:
            key = "flag_clear_with_two_translations@-"
        if key:
            sh.viol.append((key, "grammar=%r input=[%s] config=%s amb=%s derivations%s translations=%d" % (
                ci.g, " ".join(ci.w), sem.cfg_name(c), amb, ">=2" if nd >= 2 else "=1", len(T)), ci.replay(i)))
    sh.count("ambiguous_sentences" if nd >= 2 else "unambiguous_sentences")
    if nd >= 2 and len(T) == 1:
        sh.count("ambiguous_but_single_translation")
    return nd >= 2


JUDGES = {"C02": judge_c02, "C03": judge_c03, "C04": judge_c04, "C05": judge_c05}


def _worker(args):
    pid, seed, idx, n_grammars, maxlen, n_inputs, variant, configs = args
    rng = random.Random(seed * 7919 + idx * 104729 + int(pid[1:]))
    sh = sem.Shard()
    judge = JUDGES[pid]
    grams = sem.grammar_stream(rng, n_grammars)
    cases, refs = [], {}
    cid = 0
    for gi, (name, g, strict) in enumerate(grams):
        ref = refs[gi] = oracle.Ref(g)
        ins = gen.inputs_for(rng, g, 4, 16, maxlen)
        sents = [w for w in ins if ref.sentence(w)]
        lim = n_inputs * 3 if getattr(g, "input_gen", None) is not None else n_inputs
        if len(sents) > lim:
            sents = rng.sample(sents, lim)
        for w in sents:
            cases.append((gi, sem.CaseInfo(cid, g, strict, w, configs, name)))
            cid += 1
    tr = sem.run_cases(variant, [c for _, c in cases], None)
    ctx = {}
    amb_by_g = {}
    per = []
    for gi, ci in cases:
        case = tr.get(ci.cid)
        if case is None:
            sh.inconclusive += 1
            continue
        if case.status != "ok":
            sem.crash_violation(sh, ci, case)
        r = judge(sh, ci, case, refs[gi], ctx)
        if pid == "C05" and r is not None:
            amb_by_g.setdefault(gi, set()).add(r)
            per.append((gi, ci))
    if pid == "C05":
        for gi, ci in per:
            if len(amb_by_g[gi]) == 2:
                sh.nontrivial.add(hash((ci.g.key(), tuple(ci.w))))
        if per:
            gi, ci = per[len(per) // 2]
            sh.samples.append({"grammar": repr(ci.g), "input": ci.w, "configurations": len(ci.configs)})
    return sh.result()


PARAMS = {
    # pid: (configs, quick(shards, grammars, maxlen, inputs), thorough(...), rule, floor)
    "C02": (cfgs(costs=(0, 1), recs=(0, 1), amodes=(2, 1)), (16, 60, 10, 14), (192, 90, 14, 24),
            "sentences of pool/random/mutated accepted grammars with random translation specs (permuted, partial, "
            "NIL-padded, pass-through, empty, `# -'), one_parse=1, cost flag off and on, lookahead 0..2, recovery on/off, with and "
            "without parse_free; the dumped tree must be a member of the reference translation set. Non-trivial = "
            "distinct (grammar,input,configuration) whose grammar has a permuted/partial/NIL-padded translation or a "
            "pass-through of a nullable symbol and whose tree has >=3 nodes.", 300),
    "C03": (cfgs(ones=(0,)), (16, 90, 9, 16), (320, 120, 12, 24),
            "sentences of pool/random/mutated accepted grammars, one_parse=0, cost=0, lookahead 0..2; the set of "
            "trees denoted by the dumped DAG is compared with the reference translation set (cap 3000 trees). "
            "Non-trivial = distinct (grammar,input,lookahead) with >=2 reference translations.", 300),
    "C04": (cfgs(ones=(1, 0), costs=(1,), amodes=(2, 1)), (16, 70, 9, 14), (256, 100, 12, 22),
            "as C03 with random costs 0..9 (ties and zeros included) and cost_flag=1, one_parse in {0,1}, with and "
            "without parse_free; denoted set must equal (one_parse: be a member of) the arg-min-cost subset of the "
            "reference translations, cost fields must be additive, root cost must be the minimum. Non-trivial = "
            "distinct (grammar,input,configuration) with >=2 translations of >=2 distinct total costs.", 300),
    "C05": (sem.ALL_CONFIGS, (16, 50, 10, 14), (192, 80, 13, 22),
            "sentences of pool/random/mutated accepted grammars under all 24 configurations; *ambiguous_p compared "
            "with the reference derivation count (saturated at 2) and translation count. Non-trivial = distinct "
            "(grammar,input) sentences of grammars that have both an ambiguous and an unambiguous sentence in the "
            "sample.", 200),
}


def check(pid, tier):
    ck = core.Check(pid, tier)
    configs, q, t, rule, floor = PARAMS[pid]
    shards, n_grammars, maxlen, n_inputs = q if tier == "quick" else t
    variants = ["asan"] * shards
    for i in range(3, shards, 4 if tier == "thorough" else 8):
        variants[i] = "asan-small"
    jobs = [(pid, ck.seed, i, n_grammars, maxlen, n_inputs, variants[i], configs) for i in range(shards)]
    res = core.pmap(_worker, jobs)
    sem.merge(ck, res)
    ck.cov["rule"] = rule
    ck.cov["configurations_per_case"] = len(configs)
    ck.assumptions = ["reference translation enumeration (vlib/oracle.py) written from the manual, self-tested; "
                      "sets capped at 3000 trees, capped cases counted inconclusive for completeness",
                      "inputs bounded by the tier's maximum length"]
    ck.floor = floor
    return ck.finish()
