"""Builds of the library under test + drivers, always from /repo's current
working tree.  Object directories are content addressed (sources + flags), so
an edited tree is rebuilt and an unchanged one is reused."""
import hashlib, os, subprocess, sys, shutil, tempfile, time
from concurrent.futures import ThreadPoolExecutor

REPO = os.environ.get("VERIF_REPO", "/repo")
VERIF = os.path.dirname(os.path.dirname(os.path.abspath(__file__)))
SRC = os.path.join(REPO, "src")
BUILD_ROOT = os.path.join(VERIF, "build")
DRV = os.path.join(VERIF, "driver")

SAN = ["-O1", "-g", "-fno-omit-frame-pointer", "-fsanitize=address,undefined",
       "-fno-sanitize-recover=all"]
SMALL = ["-DOS_DEFAULT_SEGMENT_LENGTH=16", "-DVLO_DEFAULT_LENGTH=8"]
RENAMES = ["-Dmalloc=vf_malloc", "-Dcalloc=vf_calloc", "-Drealloc=vf_realloc",
           "-Dfree=vf_free", "-Dexit=vf_exit"]
HOOK = ["-DYAEP_VERIF"]

C_LIB = ["allocate.c", "hashtab.c", "objstack.c", "vlobject.c", "yaep.c"]
CXX_LIB = ["allocate.c", "hashtab.cpp", "objstack.cpp", "vlobject.cpp", "yaep.cpp"]

# variant -> (lang, lib flags, driver flags, link flags, driver source, lib renames)
# The *-small variants are compiled without -DNDEBUG, like the default CMake build: the assertions of the
# containers and of the description parser are live there (those of yaep.c need -DYAEP_DEBUG, variant dbg).
VARIANTS = {
    "asan":       dict(lang="c", flags=SAN + HOOK, drv="vdrv.c"),
    "asan-small": dict(lang="c", flags=SAN + HOOK + SMALL, drv="vdrv.c", ndebug=False),
    "asan++":     dict(lang="c++", flags=SAN + HOOK, drv="vdrv.c"),
    "asan++-small": dict(lang="c++", flags=SAN + HOOK + SMALL, drv="vdrv.c", ndebug=False),
    "plain":      dict(lang="c", flags=["-O2", "-g"] + HOOK, drv="vdrv.c"),
    "plain++":    dict(lang="c++", flags=["-O2", "-g"] + HOOK, drv="vdrv.c"),
    "vf":         dict(lang="c", flags=SAN + HOOK, drv="vdrv.c", renames=True),
    "vf-small":   dict(lang="c", flags=SAN + HOOK + SMALL, drv="vdrv.c", renames=True, ndebug=False),
    "vf-plain":   dict(lang="c", flags=["-O2", "-g"] + HOOK, drv="vdrv.c", renames=True),
    "nohook":     dict(lang="c", flags=SAN, drv="vdrv.c"),
    "dbg":        dict(lang="c", flags=SAN + HOOK + ["-DYAEP_DEBUG"], drv="vdrv.c", ndebug=False),
    # container harness (C19)
    "cont":       dict(lang="c", flags=SAN, drv="cont.c", lib=["allocate.c", "hashtab.c", "objstack.c", "vlobject.c"]),
    "cont-small": dict(lang="c", flags=SAN + SMALL, drv="cont.c", lib=["allocate.c", "hashtab.c", "objstack.c", "vlobject.c"], ndebug=False),
    "cont++":     dict(lang="c++", flags=SAN, drv="cont.c", lib=["allocate.c", "hashtab.cpp", "objstack.cpp", "vlobject.cpp"]),
    "cont++-small": dict(lang="c++", flags=SAN + SMALL, drv="cont.c", lib=["allocate.c", "hashtab.cpp", "objstack.cpp", "vlobject.cpp"], ndebug=False),
}


class BuildError(Exception):
    pass


def _read(p):
    with open(p, "rb") as f:
        return f.read()


def _tree_hash():
    h = hashlib.sha256()
    for fn in sorted(os.listdir(SRC)):
        p = os.path.join(SRC, fn)
        if os.path.isfile(p) and fn.rsplit(".", 1)[-1] in ("c", "h", "cpp", "y"):
            h.update(fn.encode()); h.update(b"\0"); h.update(_read(p)); h.update(b"\0")
    for fn in sorted(os.listdir(DRV)):
        p = os.path.join(DRV, fn)
        if os.path.isfile(p):
            h.update(fn.encode()); h.update(b"\0"); h.update(_read(p)); h.update(b"\0")
    return h.hexdigest()


def _run(cmd, cwd=None):
    r = subprocess.run(cmd, cwd=cwd, stdout=subprocess.PIPE, stderr=subprocess.STDOUT, text=True)
    if r.returncode != 0:
        raise BuildError("command failed: %s\n%s" % (" ".join(cmd), r.stdout[-4000:]))
    return r.stdout


def _mtime(p):
    try:
        return os.path.getmtime(p)
    except OSError:          # removed or renamed by a concurrent process
        return None


def _prune(keep):
    """best effort; other processes create, rename and remove directories here at the same time"""
    try:
        names = os.listdir(BUILD_ROOT)
    except OSError:
        return
    now = time.time()
    ents = []
    for d in names:
        p = os.path.join(BUILD_ROOT, d)
        m = _mtime(p)
        if m is None or not os.path.isdir(p) or d == "ansic":
            continue
        if d.startswith("tmp"):
            if now - m > 3600:               # stale temp dir
                shutil.rmtree(p, ignore_errors=True)
            continue
        ents.append((m, p))
    ents.sort(reverse=True)
    for m, p in ents[keep:]:
        # never remove something a concurrent check may be executing
        if now - m > 1800:
            shutil.rmtree(p, ignore_errors=True)


def build(variant):
    """Return path of the driver executable for VARIANT, building if needed."""
    v = VARIANTS[variant]
    th = _tree_hash()
    key = hashlib.sha256((th + variant + repr(sorted(v.items(), key=str)) + ("+assert" if os.environ.get("VERIF_ASSERT") else "")).encode()).hexdigest()[:20]
    out = os.path.join(BUILD_ROOT, "%s-%s" % (variant.replace("+", "x"), key))
    exe = os.path.join(out, "drv")
    if os.path.exists(exe):
        try:
            os.utime(out, None)
        except OSError:
            pass
        return exe
    os.makedirs(BUILD_ROOT, exist_ok=True)
    tmp = tempfile.mkdtemp(prefix="tmp", dir=BUILD_ROOT)
    try:
        cxx = v["lang"] == "c++"
        cc = "g++" if cxx else "gcc"
        std = "-std=gnu++11" if cxx else "-std=gnu90"
        libsrc = v.get("lib") or (CXX_LIB if cxx else C_LIB)
        if any(s.startswith("yaep.") for s in libsrc):
            _run(["bison", "-o", os.path.join(tmp, "sgramm.c"), os.path.join(SRC, "sgramm.y")])
        base = [std, "-w", "-I" + tmp, "-I" + SRC]
        if v.get("ndebug", True) and not os.environ.get("VERIF_ASSERT"):
            base.append("-DNDEBUG")
        base += v["flags"]
        jobs = []
        objs = []
        for s in libsrc:
            o = os.path.join(tmp, s.replace(".", "_") + ".o")
            objs.append(o)
            comp = cc
            fl = list(base)
            if s.endswith(".c") and cxx:
                # allocate.c is C in both libraries
                comp = "gcc"
                fl = ["-std=gnu90"] + base[1:]
            if v.get("renames"):
                fl += RENAMES
            jobs.append([comp] + fl + ["-c", os.path.join(SRC, s), "-o", o])
        dsrc = os.path.join(DRV, v["drv"])
        dobj = os.path.join(tmp, "drv.o")
        dfl = list(base)
        if cxx:
            dfl += ["-x", "c++"]
        else:
            dfl[0] = "-std=gnu99"
        if v.get("renames"):
            dfl.append("-DVF_ALLOC")
        if "-DYAEP_VERIF" not in v["flags"]:
            dfl.append("-DNO_HOOKS")
        jobs.append([cc] + dfl + ["-c", dsrc, "-o", dobj])
        with ThreadPoolExecutor(max_workers=8) as ex:
            list(ex.map(_run, jobs))
        link = [cc] + [f for f in v["flags"] if f.startswith("-fsanitize") or f == "-g"]
        _run(link + ["-o", os.path.join(tmp, "drv"), dobj] + objs + ["-lm"])
        try:
            os.rename(tmp, out)
        except OSError:
            # somebody else won the race
            shutil.rmtree(tmp, ignore_errors=True)
        _prune(60)
        return exe
    except BaseException:
        shutil.rmtree(tmp, ignore_errors=True)
        raise


def build_many(variants):
    with ThreadPoolExecutor(max_workers=4) as ex:
        return dict(zip(variants, ex.map(build, variants)))


if __name__ == "__main__":
    for v in sys.argv[1:] or list(VARIANTS):
        t = time.time()
        print(v, build(v), "%.1fs" % (time.time() - t))
