"""C10: grammar definition succeeds iff the grammar is well-formed."""
import random
from . import core, sem, gen, oracle, build, run
from .gram import Grammar, Rule, NIL, emit_define, emit_tokens

DEFECTS = ["neg_code", "rep_name", "rep_code", "term_error_name", "term_S", "term_eof", "lhs_S_first", "lhs_S_later",
           "rhs_S_first", "rhs_S_later", "rhs_eof_first", "rhs_eof_later", "lhs_eof_later", "no_rules", "term_lhs",
           "error_lhs", "two_transl_no_anode", "neg_cost", "index_eq_len", "index_big", "index_nil_minus_1",
           "rep_index", "self_loop", "nullable_sibling_loop", "two_step_loop", "unproductive", "unproductive_start",
           "unreachable", "undefined_nonterm", "deep_nullable_loop", "deep_nullable_loop"]


def clone(g):
    return Grammar(list(g.terms), [Rule(r.lhs, list(r.rhs), r.anode, r.cost, None if r.transl is None else list(r.transl))
                                   for r in g.rules])


def inject(rng, g0, what):
    g = clone(g0)
    terms, rules = g.terms, g.rules
    nts = g.nonterms() or ["S"]
    tn = [t[0] for t in terms]
    if not rules and what != 'no_rules':
        return g
    later = rng.randrange(1, len(rules) + 1) if rules else 0

    def newrule(lhs, rhs, anode=None, cost=0, transl=None, pos=None):
        r = Rule(lhs, rhs, anode, cost, transl)
        rules.insert(len(rules) if pos is None else pos, r)

    if what == "neg_code":
        terms.insert(rng.randrange(len(terms) + 1), ("neg", -rng.choice([1, 2, 7, 100000])))
    elif what == "rep_name" and terms:
        n, c = rng.choice(terms)
        terms.insert(rng.randrange(len(terms) + 1), (n, 9000 + rng.randrange(100)))
    elif what == "rep_code" and terms:
        n, c = rng.choice(terms)
        terms.insert(rng.randrange(len(terms) + 1), ("dup" + n, c))
    elif what == "term_error_name":
        terms.insert(rng.randrange(len(terms) + 1), ("error", 9100))
    elif what == "term_S":
        terms.insert(rng.randrange(len(terms) + 1), ("$S", 9101))
    elif what == "term_eof":
        terms.insert(rng.randrange(len(terms) + 1), ("$eof", 9102))
    elif what == "lhs_S_first":
        newrule("$S", [rng.choice(tn)] if tn else [], pos=0)
    elif what == "lhs_S_later":
        newrule("$S", [rng.choice(tn)] if tn else [], pos=later)
    elif what == "rhs_S_first":
        rules[0].rhs.insert(rng.randrange(len(rules[0].rhs) + 1), "$S")
        rules[0].transl = None
    elif what == "rhs_S_later":
        newrule(rng.choice(nts), ["$S"] + ([rng.choice(tn)] if tn else []), pos=later)
    elif what == "rhs_eof_first":
        rules[0].rhs.insert(rng.randrange(len(rules[0].rhs) + 1), "$eof")
        rules[0].transl = None
    elif what == "rhs_eof_later":
        newrule(rng.choice(nts), ([rng.choice(tn)] if tn else []) + ["$eof"], pos=later)
    elif what == "lhs_eof_later":
        newrule("$eof", [rng.choice(tn)] if tn else [], pos=later)
    elif what == "no_rules":
        del rules[:]
    elif what == "term_lhs" and tn:
        newrule(rng.choice(tn), [rng.choice(tn)], pos=rng.randrange(len(rules) + 1))
    elif what == "error_lhs":
        newrule("error", [rng.choice(tn)] if tn else [], pos=rng.randrange(len(rules) + 1))
    elif what == "two_transl_no_anode":
        r = rng.choice(rules)
        while len(r.rhs) < 2:
            r.rhs.append(rng.choice(tn) if tn else nts[0])
        r.anode = None
        r.transl = rng.choice([[0, 1], [1, 0], [0, NIL], [NIL, NIL], [0, 1, NIL]])
    elif what == "neg_cost":
        r = rng.choice(rules)
        r.anode = r.anode or "n"
        r.cost = -rng.choice([1, 2, 1000])
        if r.transl and len(r.transl) > len(r.rhs):
            r.transl = None
    elif what in ("index_eq_len", "index_big", "index_nil_minus_1"):
        r = rng.choice(rules)
        r.anode = r.anode or "n"
        bad = {"index_eq_len": len(r.rhs), "index_big": len(r.rhs) + rng.randrange(1, 50),
               "index_nil_minus_1": NIL - 1}[what]
        r.transl = [x for x in (r.transl or []) if x != NIL and x < len(r.rhs)]
        r.transl = list(dict.fromkeys(r.transl))
        r.transl.insert(rng.randrange(len(r.transl) + 1), bad)
    elif what == "rep_index":
        r = rng.choice(rules)
        if not r.rhs:
            r.rhs.append(rng.choice(tn) if tn else nts[0])
        r.anode = r.anode or "n"
        k = rng.randrange(len(r.rhs))
        r.transl = [k, k] if rng.random() < 0.5 else [k, NIL, k]
    elif what == "self_loop":
        a = rng.choice(nts)
        newrule(a, [a])
    elif what == "nullable_sibling_loop":
        a = rng.choice(nts)
        newrule("Zn", [], pos=len(rules))
        newrule(a, ["Zn", a, "Zn"])
    elif what == "deep_nullable_loop":
        # A : Z1 A ... where Z1 is nullable only through a chain Z1 -> Z2 -> ... -> Zk -> empty that is written
        # top-down (used before defined), every level also having a terminal alternative
        a = rng.choice(nts)
        k = rng.randrange(2, 7)
        t = rng.choice(tn) if tn else None
        order = list(range(1, k + 1))
        if rng.random() < 0.3:
            rng.shuffle(order)
        newrule(a, ["Zd1", a] if rng.random() < 0.5 else ["Zd1", a, "Zd%d" % k], pos=rng.randrange(len(rules) + 1))
        for i in order:
            if t is not None:
                newrule("Zd%d" % i, [t])
            newrule("Zd%d" % i, ["Zd%d" % (i + 1)] if i < k else [])
    elif what == "two_step_loop":
        a = rng.choice(nts)
        newrule(a, ["Zl"])
        newrule("Zl", [a])
    elif what == "unproductive":
        a = rng.choice(nts)
        newrule(a, ["Zu"] + ([rng.choice(tn)] if tn else []))
        newrule("Zu", ["Zu", rng.choice(tn)] if tn else ["Zu", "Zu"])
    elif what == "unproductive_start":
        s = g.start()
        g.rules[:] = [r for r in rules if r.lhs != s]
        g.rules.insert(0, Rule(s, ([rng.choice(tn)] if tn else []) + [s] + ([rng.choice(tn)] if tn else ["Q"])))
    elif what == "unreachable":
        newrule("Zr", [rng.choice(tn)] if tn else [])
    elif what == "undefined_nonterm":
        r = rng.choice(rules)
        r.rhs.insert(rng.randrange(len(r.rhs) + 1), "Zq")
        if r.anode is None:
            r.transl = None
    return g


CODE_NAMES = {4: "FIXED_NAME_USAGE", 5: "REPEATED_TERM_DECL", 6: "NEGATIVE_TERM_CODE", 7: "REPEATED_TERM_CODE",
              8: "NO_RULES", 9: "TERM_IN_RULE_LHS", 10: "INCORRECT_TRANSLATION", 11: "NEGATIVE_COST",
              12: "INCORRECT_SYMBOL_NUMBER", 13: "REPEATED_SYMBOL_NUMBER", 14: "UNACCESSIBLE_NONTERM",
              15: "NONTERM_DERIVATION", 16: "LOOP_NONTERM"}


def _worker(args):
    seed, idx, n_cases, variant = args
    rng = random.Random(seed * 2654435761 + idx * 40503)
    sh = sem.Shard()
    cases = []
    lines = []
    pool = gen.pool()
    for cid in range(n_cases):
        k = rng.random()
        if k < 0.08:
            # well-formed grammars whose nullable / productive / reachable flags need many passes when the rules
            # are written top-down
            depth = rng.randrange(3, 9)
            names = ["D%d" % i for i in range(depth)]
            rs = [Rule("S", [names[0], "a"], "top", 1, [0])]
            kind = rng.choice(["nullable", "productive", "mixed"])
            order = list(range(depth))
            if rng.random() < 0.3:
                rng.shuffle(order)
            for i in order:
                nxt = names[i + 1] if i + 1 < depth else None
                if kind == "nullable":
                    rs.append(Rule(names[i], [nxt] if nxt else [], "n%d" % i, 0, [0] if nxt else []))
                elif kind == "productive":
                    rs.append(Rule(names[i], [nxt, "b"] if nxt else ["b"], None, 0, [0]))
                else:
                    rs.append(Rule(names[i], ([nxt] if nxt else []) + (["b"] if i % 2 else []), None, 0, None))
            g = Grammar([("a", 97), ("b", 98)], rs)
            what = "deep_chain_" + kind
        elif k < 0.25:
            g = gen.random_grammar(rng, error_p=0.05)
            what = "raw_random"
        elif k < 0.45:
            nm, g = pool[rng.randrange(len(pool))]
            if rng.random() < 0.5:
                g = gen.mutate(rng, g)
            what = "pool_or_mutant"
        else:
            if rng.random() < 0.5:
                g0, _ = gen.accepted_random_grammar(rng, strict=1, max_rules=6)
            else:
                g0 = pool[rng.randrange(len(pool))][1]
            what = rng.choice(DEFECTS)
            g = inject(rng, g0, what)
            if rng.random() < 0.15:
                what2 = rng.choice(DEFECTS)
                g = inject(rng, g, what2)
                what += "+" + what2
        strict = rng.randrange(2)
        cases.append((cid, g, strict, what))
        lines.append("C %d" % cid)
        lines.append("new 0")
        lines += emit_define(g, 0, strict)
        toks = [c for n, c in g.terms if c >= 0][:2]
        lines += emit_tokens(toks)
        lines.append("parse 0 2 n")
        lines.append("free 0")
    exe = build.build(variant)
    tr = run.run_text(exe, "\n".join(lines) + "\n")
    seen_codes = {}
    for cid, g, strict, what in cases:
        case = tr.get(cid)
        sh.evals += 1
        if case is None:
            sh.inconclusive += 1
            continue
        if case.status != "ok":
            sh.viol.append((case.key or case.status + "@case", "grammar=%r strict=%d" % (g, strict),
                            {"grammar": g.to_json(), "strict": strict, "report": case.report[:3000]}))
            continue
        rd = [s for s in case.steps if s.get("op") == "read"][0]
        ps = [s for s in case.steps if s.get("op") == "parse"][0]
        rc = rd["rc"]
        d = oracle.wf(g, strict)
        dall = oracle.wf_all(g, strict)
        keys = []
        if rc == 0 and d:
            keys.append("accepted_defective_grammar:%s@-" % "+".join(CODE_NAMES[x] for x in sorted(d)))
        elif rc != 0 and not d:
            keys.append("rejected_wellformed_grammar:%s@-" % CODE_NAMES.get(rc, str(rc)))
        elif rc != 0 and rc not in dall:
            keys.append("reported_defect_absent:%s@-" % CODE_NAMES.get(rc, str(rc)))
        if rc != 0:
            if rd["ec"] != rc:
                keys.append("error_code_not_recorded@-")
            if ps["rc"] != 2:
                keys.append("parse_after_failed_definition_not_refused@-")
        elif ps["rc"] not in (0,):
            keys.append("parse_after_good_definition_failed:%d@-" % ps["rc"])
        for k in keys:
            sh.viol.append((k, "what=%s strict=%d rc=%d msg=%r reference_defects=%s grammar=%r" % (
                what, strict, rc, rd["em"][:80], sorted(CODE_NAMES[x] for x in dall), g),
                {"grammar": g.to_json(), "strict": strict, "what": what}))
        if rc != 0:
            seen_codes[rc] = seen_codes.get(rc, 0) + 1
            if len(g.rules) >= 2:
                sh.nontrivial.add(hash((g.key(), strict)))
        else:
            an = oracle.Analysis(g)
            if any(a in an.nullable for a in an.nts) or len(g.rules) >= 3:
                sh.nontrivial.add(hash((g.key(), strict)))
        sh.count("accepted" if rc == 0 else "rejected")
    for c, n in seen_codes.items():
        sh.count("code_%s" % CODE_NAMES.get(c, c), n)
    if cases:
        cid, g, strict, what = cases[len(cases) // 2]
        sh.samples.append({"grammar": repr(g), "strict": strict, "generator": what,
                           "reference_defects": sorted(CODE_NAMES[x] for x in oracle.wf_all(g, strict))})
    return sh.result()


def check(tier):
    ck = core.Check("C10", tier)
    shards, n = (16, 4000) if tier == "quick" else (512, 8000)
    variants = ["asan" if i % 4 != 3 else "asan-small" for i in range(shards)]
    res = core.pmap(_worker, [(ck.seed, i, n, variants[i]) for i in range(shards)])
    counters = sem.merge(ck, res)
    ck.cov["rule"] = ("definitions through the callback interface: raw random grammars, pool grammars and mutants, and "
                      "well-formed grammars with one (in 15 percent of cases two) injected defect out of %d kinds (%s), strict in {0,1}; "
                      "each followed by a parse attempt. Non-trivial = distinct (grammar,strict) that are rejected and "
                      "have >=2 rules, or accepted and have a nullable nonterminal or >=3 rules." % (
                          len(DEFECTS), ", ".join(DEFECTS)))
    ck.assumptions = ["reference well-formedness checker vlib/oracle.py:wf written from the documented defect list; "
                      "when several defects are present only presence of the reported one is required"]
    ck.floor = 1000
    for c in CODE_NAMES.values():
        ck.require("definitions rejected with " + c, counters.get("code_" + c, 0), 5)
    return ck.finish()
