from . import semx


def check(tier):
    return semx.check("C05", tier)
