#!/usr/bin/env python3
"""Run seedcheck for every seeded change with its targeted checks and record
the outcome in seeded/<id>/meta.json (field "verification")."""
import json, os, subprocess, sys
TARGETS = {
    "C01-a": ["C01", "C09"], "C02-a": ["C02", "C03"], "C03-a": ["C03", "C04"], "C04-a": ["C04"], "C05-a": ["C05", "C03"],
    "C06-a": ["C06", "C07"], "C07-a": ["C07", "C06", "C08"], "C08-a": ["C08"], "C09-a": ["C09", "C01"], "C10-a": ["C10"],
    "C11-a": ["C11"], "C12-a": ["C12"], "C13-a": ["C13", "C04"], "C14-a": ["C14"], "C15-a": ["C15", "C14"],
    "C16-a": ["C16", "C19"], "C17-a": ["C17"], "C18-a": ["C18"], "C19-a": ["C19"],
    "C01-b": ["C01", "C09"], "C02-b": ["C02", "C03"], "C03-b": ["C03", "C04"], "C04-b": ["C04"], "C06-b": ["C06"],
    "C07-b": ["C07"], "C09-b": ["C09", "C01", "C14"], "C11-b": ["C11"], "C12-b": ["C12", "C11"], "C13-b": ["C13", "C02"],
    "C14-b": ["C14", "C15", "C11"], "C05-b": ["C05", "C03"], "C08-b": ["C08", "C07"], "C10-b": ["C10"],
    "C15-b": ["C15"], "C18-b": ["C18"], "C16-b": ["C16", "C19"], "C17-b": ["C17"], "C19-b": ["C19"],
    "C01-c": ["C01", "C09"], "C02-c": ["C02", "C13", "C14"], "C04-c": ["C04", "C03"], "C05-c": ["C05", "C09", "C01"],
    "C06-c": ["C06", "C09", "C01"], "C07-c": ["C07"], "C08-c": ["C08", "C09"], "C09-c": ["C09", "C08"],
    "C12-c": ["C12", "C14", "C15"], "C13-c": ["C13"], "C14-c": ["C14", "C12"], "C15-c": ["C15", "C14"],
    "C16-c": ["C16", "C19"], "C19-c": ["C19"], "C03-c": ["C03", "C04"],
    "C01-d": ["C01", "C09"], "C02-d": ["C02", "C01", "C03"], "C03-d": ["C03", "C09", "C05"], "C04-d": ["C04"],
    "C05-d": ["C05", "C09", "C14"], "C06-d": ["C06", "C09"], "C07-d": ["C07"], "C08-d": ["C08"], "C09-d": ["C09"],
    "C13-d": ["C13", "C14"],
    "C10-d": ["C10"], "C11-d": ["C11", "C12", "C14"], "C12-d": ["C12", "C07", "C13"], "C14-d": ["C14"],
    "C15-d": ["C15", "C14"], "C16-d": ["C16", "C19"], "C17-d": ["C17"], "C18-d": ["C18"], "C19-d": ["C19"],
    "C01-e": ["C01", "C09"], "C02-e": ["C02", "C03"], "C03-e": ["C03", "C04"], "C04-e": ["C04"], "C05-e": ["C05", "C03"],
    "C06-e": ["C06", "C07"], "C07-e": ["C07", "C06"], "C08-e": ["C08"], "C09-e": ["C09", "C01"], "C13-e": ["C13", "C04"],
}
only = sys.argv[1:]
for sid in sorted(os.listdir("/verif/seeded")):
    d = os.path.join("/verif/seeded", sid)
    if not os.path.isdir(d) or (only and sid not in only):
        continue
    props = TARGETS.get(sid, [sid[:3]])
    p = subprocess.run(["python3", "/verif/tools/seedcheck.py", d] + props, capture_output=True, text=True, timeout=7200)
    try:
        r = json.loads(p.stdout)
    except ValueError:
        print(sid, "seedcheck failed:", p.stdout[-300:], p.stderr[-300:])
        continue
    meta = json.load(open(os.path.join(d, "meta.json")))
    keep_rate = meta.get("verification", {}).get("detection_by_seed")
    meta["verification"] = {
        "ran": "tools/seedcheck.py seeded/%s %s  (scratch worktree of /repo HEAD; demonstration without/with patch; "
               "pinned suite with patch; listed checks, quick tier, VERIF_REPO=<patched worktree>)" % (sid, " ".join(props)),
        "repo_head": subprocess.run(["git", "-C", "/repo", "rev-parse", "--short", "HEAD"], capture_output=True, text=True).stdout.strip(),
        "demo_exit_without_patch": r.get("demo_without_patch"), "demo_exit_with_patch": r.get("demo_with_patch"),
        "pinned_suite_passes_with_patch": r.get("suite_ok"),
        "checks": {k: {"exit": v["exit"], "wall_s": v["wall"], "first_lines": [l[:300] for l in v["lines"][:3]]}
                   for k, v in r.get("checks", {}).items()},
    }
    if keep_rate:
        meta["verification"]["detection_by_seed"] = keep_rate
    json.dump(meta, open(os.path.join(d, "meta.json"), "w"), indent=1)
    print(sid, "demo", r.get("demo_without_patch"), r.get("demo_with_patch"), "suite", r.get("suite_ok"),
          {k: v["exit"] for k, v in r.get("checks", {}).items()})
