#!/bin/sh
# take_seed.sh <Cxx> <worktree> <suffix>: keep a sub-agent's seeded change as /verif/seeded/<Cxx>-<suffix>,
# remove its scratch worktree, then run seedall for it.
set -e
id=$1; wt=$2; suf=$3
dst=/verif/seeded/$id-$suf
mkdir -p $dst
cp $wt/seeded/patch.diff $wt/seeded/meta.json $wt/seeded/run_demo.sh $dst/
for f in $wt/seeded/demo.c $wt/seeded/demo.cpp; do [ -f $f ] && cp $f $dst/; done
git -C /repo worktree remove --force $wt || true
rm -rf $wt
python3 /verif/tools/seedall.py $id-$suf
