#!/usr/bin/env python3
"""One-off editor used to insert the YAEP_VERIF hooks into /repo/src/yaep.c
(kept for the record; anchors are whitespace-insensitive)."""
import re, sys
p = sys.argv[1]
s = open(p).read()

def rx(anchor):
    parts = anchor.split()
    return r'[ \t]*' + r'\s+'.join(re.escape(x) for x in parts)

def find(anchor):
    ms = list(re.finditer(rx(anchor), s))
    assert len(ms) == 1, (anchor, len(ms))
    return ms[0]

def ins_before(anchor, text):
    global s
    m = find(anchor)
    # insert at start of the line where the match starts
    st = s.rfind('\n', 0, m.start()) + 1
    s = s[:st] + text + s[st:]

def ins_after(anchor, text):
    global s
    m = find(anchor)
    en = s.find('\n', m.end() - 1) + 1
    s = s[:en] + text + s[en:]

ins_before("""/* Forward decrlarations: */
static void yaep_error (int code, const char *format, ...);""", """#ifdef YAEP_VERIF
/* Verification hooks (inert unless a harness sets the pointer): event
   KIND with three integer arguments.  See /verif/DESIGN.md, section 2.3.  */
void (*yaep_verif_event) (int kind, long a, long b, long c) = NULL;
/* Nonzero enables the (expensive) recomputation of reused Earley sets.  */
int yaep_verif_h2_enabled = 0;
#define YAEP_VERIF_EVENT(k, a, b, c) \\
  do { if (yaep_verif_event != NULL) (*yaep_verif_event) (k, a, b, c); } while (0)
#endif

""")

ins_before("""vsprintf (grammar->error_message, format, arguments);""", """#ifdef YAEP_VERIF
  if (yaep_verif_event != NULL)
    {
      va_list verif_arguments;

      va_start (verif_arguments, format);
      (*yaep_verif_event) (1, (long) vsnprintf (NULL, 0, format,
						verif_arguments),
			   YAEP_MAX_ERROR_MESSAGE_LENGTH, code);
      va_end (verif_arguments);
    }
#endif
""")

ins_after("""order to achieved given error recovery state. */
  int backward_move_cost;""", """#ifdef YAEP_VERIF
  /* 1 - pushed by advancing the head frontier, 2 - secondary state.  */
  int verif_flags;
#endif
""")
ins_after("""state.start_tok = tok_curr;
  state.backward_move_cost = backward_move_cost;""", """#ifdef YAEP_VERIF
  state.verif_flags = yaep_verif_next_state_flags;
  yaep_verif_next_state_flags = 0;
#endif
""")
ins_before("""/* The following function creates and returns new error recovery state
   with charcteristics (LAST_ORIGINAL_PL_EL, BACKWARD_MOVE_COST,""", """#ifdef YAEP_VERIF
/* Flags for the next created recovery state.  */
static int yaep_verif_next_state_flags;
#endif

""")
ins_before("""back_pl_frontier = pl_curr;
 tok_curr = start_tok_curr;
 save_original_sets ();""", """#ifdef YAEP_VERIF
	      YAEP_VERIF_EVENT (7, pl_curr, backward_move_cost, 0);
#endif
""")
ins_before("""push_recovery_state (state.last_original_pl_el, cost + 1);""", """#ifdef YAEP_VERIF
	      yaep_verif_next_state_flags = state.verif_flags | 1;
#endif
""")
ins_before("""push_recovery_state (state.last_original_pl_el, cost);
 }
 core_symb_vect
 = core_symb_vect_find (new_core, toks[tok_curr].symb);""", """#ifdef YAEP_VERIF
		  yaep_verif_next_state_flags = state.verif_flags | 2;
		  YAEP_VERIF_EVENT (10, tok_curr, cost, 0);
#endif
""")
ins_after("""*start = start_tok_curr - state.backward_move_cost;
 *stop = *start + cost;""", """#ifdef YAEP_VERIF
		  YAEP_VERIF_EVENT (13, state.verif_flags, cost,
				    state.backward_move_cost);
#endif
""")
ins_before("""set_recovery_state (&best_state);""", """#ifdef YAEP_VERIF
  if (*start < 0 && *stop < 0)
    YAEP_VERIF_EVENT (9, start_tok_curr, 0, 0);
  YAEP_VERIF_EVENT (8, best_cost, *start, *stop);
#endif
""")

ins_before("""/* How many times we reuse Earley's sets without their
   recalculation.  */
static int n_goto_successes;""", """#ifdef YAEP_VERIF
/* Recompute the successor of SET by TERM with lookahead LOOKAHEAD_TERM_NUM
   and report whether it is the set CACHED found in the goto cache.  When it
   is, nothing is created: the fresh set hash-conses to CACHED.  */
static void
yaep_verif_check_cached_set (struct set *set, struct symb *term,
			     int lookahead_term_num, struct set *cached)
{
  struct core_symb_vect *core_symb_vect;
  int i, n_far;

  for (n_far = i = 0; i < cached->core->n_start_sits; i++)
    if (cached->dists[i] > 1)
      n_far++;
  core_symb_vect = core_symb_vect_find (set->core, term);
  if (core_symb_vect == NULL)
    YAEP_VERIF_EVENT (2, 0, n_far, 1);
  else
    {
      build_new_set (set, core_symb_vect, lookahead_term_num);
      YAEP_VERIF_EVENT (2, new_set == cached, n_far, 0);
    }
  new_set = cached;
}
#endif

""")
# the forward use: n_goto_successes is declared after check_cached_transition_set
ins_after("""new_set = tab_set;
 n_goto_successes++;""", """#ifdef YAEP_VERIF
		    if (yaep_verif_h2_enabled)
		      yaep_verif_check_cached_set (set, term,
						   lookahead_term_num,
						   tab_set);
#endif
""")

ins_before("""/* The following function finds parse tree of parsed input.  The
   function sets up *AMBIGUOUS_P if we found that the grammer is""", """#ifdef YAEP_VERIF
/* Abstract nodes which were copied for another split of their rule
   (set 0) and abstract nodes which were taken again from the table of
   already translated rules (set 1).  Bounded; used only to report a
   node which gets into both sets.  */
#define YAEP_VERIF_MAX_MARKS 20000
static struct yaep_tree_node *yaep_verif_marks[2][YAEP_VERIF_MAX_MARKS];
static int yaep_verif_n_marks[2];

/* Add NODE to set WHICH.  Return TRUE if it is in the other set.  */
static int
yaep_verif_mark (int which, struct yaep_tree_node *node)
{
  int i, in_other = FALSE;

  for (i = 0; i < yaep_verif_n_marks[1 - which]; i++)
    if (yaep_verif_marks[1 - which][i] == node)
      {
	in_other = TRUE;
	break;
      }
  for (i = 0; i < yaep_verif_n_marks[which]; i++)
    if (yaep_verif_marks[which][i] == node)
      return in_other;
  if (yaep_verif_n_marks[which] < YAEP_VERIF_MAX_MARKS)
    yaep_verif_marks[which][yaep_verif_n_marks[which]++] = node;
  return in_other;
}
#endif

""")
ins_after("""n_parse_term_nodes = n_parse_abstract_nodes = n_parse_alt_nodes = 0;
  set = pl[pl_curr];
  assert (grammar->axiom != NULL);""", """#ifdef YAEP_VERIF
  yaep_verif_n_marks[0] = yaep_verif_n_marks[1] = 0;
#endif
""")
ins_before("""sit_rule = sit->rule;
 if (n_candidates == 0)
 orig_state->pl_ind = sit_orig;""", """#ifdef YAEP_VERIF
	      if (n_candidates != 0 && !(parent_anode != NULL && disp >= 0)
		  && sit_orig != orig_state->pl_ind)
		YAEP_VERIF_EVENT (3, sit_orig, orig_state->pl_ind, pl_ind);
#endif
""")
ins_before("""if (anode != NULL)
 state->anode
 = copy_anode (parent_anode->val.anode.children""", """#ifdef YAEP_VERIF
			  if (anode != NULL)
			    {
			      YAEP_VERIF_EVENT (6, sit_orig, 0, 0);
			      if (yaep_verif_mark (0, anode))
				YAEP_VERIF_EVENT (4, sit_orig, pl_ind, 0);
			    }
#endif
""")
ins_after("""node = table_state->anode;
 assert (node != NULL);""", """#ifdef YAEP_VERIF
			  YAEP_VERIF_EVENT (5, sit_orig, pl_ind, 0);
			  if (yaep_verif_mark (1, node))
			    YAEP_VERIF_EVENT (4, sit_orig, pl_ind, 1);
#endif
""")
ins_before("""yaep_parse_fin ();
  tok_fin ();
  return 0;""", """#ifdef YAEP_VERIF
  YAEP_VERIF_EVENT (20, n_sets, toks_len, 0);
  YAEP_VERIF_EVENT (21, n_set_cores, 0, 0);
  YAEP_VERIF_EVENT (22, n_set_dists, 0, 0);
  YAEP_VERIF_EVENT (23, n_set_term_lookaheads, 0, 0);
  YAEP_VERIF_EVENT (24, n_goto_successes, 0, 0);
  YAEP_VERIF_EVENT (25, tab_searches, tab_collisions, 0);
#endif
""")
open(p, 'w').write(s)
