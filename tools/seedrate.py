#!/usr/bin/env python3
"""seedrate.py <seeded-id> ...: how reliably does the targeted check (the first of the change's checks in
seedall.TARGETS, i.e. the check of the property the change was made for) catch a seeded change?  One scratch
worktree per change, patch applied, the check's quick tier run under VERIF_SEED=2,3,4 (seed 1 is what seedall
records).  Result goes to seeded/<id>/meta.json, field verification.detection_by_seed."""
import json, os, subprocess, sys, tempfile, shutil, re
sys.path.insert(0, "/verif/tools")
src = open("/verif/tools/seedall.py").read()
TARGETS = eval(re.search(r"TARGETS = (\{.*?\n\})", src, re.S).group(1))
SEEDS = [int(x) for x in os.environ.get("RATE_SEEDS", "2,3,4").split(",")]
for sid in sys.argv[1:]:
    d = os.path.join("/verif/seeded", sid)
    prop = TARGETS.get(sid, [sid[:3]])[0]
    wt = tempfile.mkdtemp(prefix="sr_", dir="/tmp")
    os.rmdir(wt)
    res = {}
    try:
        subprocess.run("git -C /repo worktree add -q --detach %s HEAD" % wt, shell=True, check=True)
        p = subprocess.run("patch -p1 -F3 -s --no-backup-if-mismatch < %s/patch.diff" % d, shell=True, cwd=wt,
                           capture_output=True, text=True)
        if p.returncode != 0:
            print(sid, "patch does not apply", p.stdout[-200:])
            continue
        for s in SEEDS:
            env = dict(os.environ, VERIF_REPO=wt, VERIF_SEEDRUN="1", VERIF_SEED=str(s))
            q = subprocess.run("timeout 2400 python3 /verif/vf.py check %s --tier quick" % prop, shell=True, cwd="/verif",
                               env=env, capture_output=True, text=True)
            res[str(s)] = q.returncode
    finally:
        subprocess.run("git -C /repo worktree remove --force %s" % wt, shell=True)
        shutil.rmtree(wt, ignore_errors=True)
    mp = os.path.join(d, "meta.json")
    meta = json.load(open(mp))
    meta.setdefault("verification", {})["detection_by_seed"] = {"check": prop, "exit_by_seed": res}
    json.dump(meta, open(mp, "w"), indent=1)
    print(sid, prop, res)
