#!/usr/bin/env python3
"""seedcheck.py <seeded-dir> <Cxx> [<Cyy> ...]

Confirm a seeded change and run checks against it.
  1. fresh scratch worktree of /repo HEAD under /tmp: demonstration passes;
  2. patch applied: library builds, the 120 pinned tests pass, demonstration fails;
  3. the given checks (quick tier) are run with VERIF_REPO pointing at the
     patched worktree (same as `git -C /repo apply` + run + `checkout`, but
     without disturbing /repo while other runs use it);
  4. the worktree and its build output are removed.
Prints a JSON summary."""
import json, os, subprocess, sys, shutil, tempfile, time

seed = os.path.abspath(sys.argv[1])
props = sys.argv[2:]
tiers = os.environ.get("SEED_TIER", "quick")
wt = tempfile.mkdtemp(prefix="sv_", dir="/tmp")
os.rmdir(wt)
res = {"seed": seed, "checks": {}}


def sh(cmd, cwd=None, env=None, timeout=3000):
    p = subprocess.run(cmd, shell=True, cwd=cwd, env=env, stdout=subprocess.PIPE, stderr=subprocess.STDOUT, text=True,
                       timeout=timeout)
    return p.returncode, p.stdout


try:
    rc, out = sh("git -C /repo worktree add -q --detach %s HEAD" % wt)
    assert rc == 0, out
    os.makedirs(os.path.join(wt, "seeded"))
    for f in os.listdir(seed):
        if f not in ("meta.json",) and os.path.isfile(os.path.join(seed, f)):
            shutil.copy(os.path.join(seed, f), os.path.join(wt, "seeded", f))
    demo = os.path.exists(os.path.join(wt, "seeded", "run_demo.sh"))
    if demo:
        rc, out = sh("sh seeded/run_demo.sh", cwd=wt, timeout=600)
        res["demo_without_patch"] = rc
    rc, out = sh("git apply seeded/patch.diff", cwd=wt)
    res["patch_applies"] = (rc == 0)
    if rc != 0:
        # the context moved (later fix commits nearby): apply with fuzz and refresh the stored patch
        rc2, out2 = sh("patch -p1 -F3 --no-backup-if-mismatch < seeded/patch.diff", cwd=wt)
        res["patch_applied_with_fuzz"] = (rc2 == 0)
        if rc2 != 0:
            res["apply_output"] = (out + out2)[-800:]
            print(json.dumps(res, indent=1))
            raise SystemExit
        rc3, newdiff = sh("git diff -- src", cwd=wt)
        if rc3 == 0 and newdiff.strip():
            open(os.path.join(seed, "patch.diff"), "w").write(newdiff)
            res["patch_refreshed"] = True
    env = dict(os.environ, VERIF_REPO=wt)
    rc, out = sh("/verif/tools/repo_tests.sh", env=env, timeout=1200)
    res["suite_with_patch"] = out.strip().splitlines()[-2:] if out.strip() else []
    res["suite_ok"] = (rc == 0)
    if demo:
        rc, out = sh("sh seeded/run_demo.sh", cwd=wt, timeout=600)
        res["demo_with_patch"] = rc
    for p in props:
        t0 = time.time()
        rc, out = sh("timeout 2400 python3 /verif/vf.py check %s --tier %s" % (p, tiers), cwd="/verif",
                     env=dict(env, VERIF_SEEDRUN="1"), timeout=2600)
        lines = [l[:400] for l in out.splitlines() if l.startswith(("VIOLATION", "OK", "INCONCLUSIVE", "HARNESS"))]
        res["checks"][p] = {"exit": rc, "wall": round(time.time() - t0, 1), "lines": lines[:8]}
finally:
    sh("git -C /repo worktree remove --force %s" % wt)
    shutil.rmtree(wt, ignore_errors=True)
print(json.dumps(res, indent=1))
