#!/usr/bin/env python3
"""Generate /verif/MANIFEST.json from the table below (single source of truth)."""
import json, os, subprocess

READY = os.environ.get("VF_READY", "").split() or None

CHECKS = {
 "C01": dict(cat="exploration", tech="differential testing against a reference Earley recogniser under ASan/UBSan",
   text="Random, pool and mutated grammars x exhaustive short strings and sampled sentences/near-misses x 24 configurations; yaep_parse's verdict (rc, root, number of syntax_error calls) is compared with an independent textbook Earley recogniser written from the manual. Held on the executions listed in the evidence; nothing is proved.",
   note="Trusts the Python reference recogniser (self-tested against brute-force enumeration) and the driver's faithful recording; inputs bounded by length 14 (exhaustive up to 5 over <=3 terminals)."),
 "C02": dict(cat="exploration", tech="differential testing: returned tree must be a member of the reference translation set",
   text="For sentences with one_parse=1,cost=0 the dumped tree (names, child order, NIL placement, TERM code and attribute position, per-node cost) must belong to the set of translations computed by an independent fixpoint over spans; structural checks (no ALT, single NIL/ERROR, NULL-terminated children inside the node's block) are made by the in-process monitor.",
   note="Reference translation enumeration is capped (3000 trees per span); capped cases are used for membership only."),
 "C03": dict(cat="exploration", tech="DAG expansion compared as a set with the reference translation set; hook-attributed known findings",
   text="All-parses DAGs are expanded (choice at every ALT occurrence) and compared as sets with the reference translations: spurious trees, cycles, ALT-in-ALT are always violations; missing trees are violations unless the parse fired one of the two recorded make_parse hook sites listed in known_findings.txt.",
   note="Known findings D10/D10b mask only parses in which the recorded mechanism ran (hook event observed in that very parse)."),
 "C04": dict(cat="exploration", tech="cost oracle: argmin over reference translations, additive cost-field check on the dumped DAG",
   text="With cost_flag the denoted set must equal the arg-min-cost subset of the reference translations (one_parse: a member), every abstract node's cost field must equal rule cost plus children, root cost must be the minimum; without the flag the field is the rule cost. Run with and without caller parse_free.",
   note="Same reference as C03; incomplete-DAG consequences of D10/D10b are attributed through the same hook sites."),
 "C05": dict(cat="exploration", tech="ambiguity flag compared with reference derivation count and translation count",
   text="*ambiguous_p must be 0 when the reference counts exactly one derivation and non-zero when there are two distinct translations; checked for both one_parse values, all lookahead levels and cost settings.",
   note="Derivation counting saturates at 2; grammars are loop-free so the fixpoint terminates."),
 "C06": dict(cat="exploration", tech="first-error position compared with reference viable-prefix computation; argument-consistency monitor",
   text="For non-sentences of strict-accepted grammars the first syntax_error call must name the first token after which no sentence continues (reference: Earley sets over productive rules with `error' as terminal) with that token's attribute; all calls are checked for range, monotonicity and attribute consistency.",
   note="Reference viable-prefix test requires reduced grammars (strict acceptance guarantees it)."),
 "C07": dict(cat="exploration", tech="repair search: returned tree must translate some input repaired by error segments of the reported total size",
   text="With recovery on every token list must give rc 0, a well-formed non-NULL tree and a callback iff it is no sentence; the tree must be a reference translation of some repaired input (segments replaced by `error', total replaced = total reported ignored); unique single-segment repairs must match the reported range.",
   note="Repair enumeration bounded (n<=9, <=4 segments); cases over budget are counted inconclusive."),
 "C08": dict(cat="exploration", tech="upper-bound oracle: reported ignored count <= cheapest simple recovery computed by the reference recogniser",
   text="The first callback's ignored-token count must not exceed the minimum over all simple recoveries (back to p, shift error, skip to q, match recovery_match tokens) computed with the reference recogniser.",
   note="Only an upper bound is asserted, so richer recoveries never alarm."),
 "C09": dict(cat="exploration", tech="metamorphic comparison across lookahead/debug levels + online goto-cache self-check hook (H2)",
   text="Transcripts of runs that differ only in lookahead level (0,1,2,-7,9) or debug level must be identical (rc, callbacks, ambiguity, denoted tree set/costs); on every goto-cache hit the guarded hook recomputes the successor set and reports if it differs. Includes long repetitive inputs and the ANSI C grammar on test.i.",
   note="H2 compares set identity after hash-consing; a hit is checked only when the hook is enabled (it is off for C18)."),
 "C10": dict(cat="exploration", tech="differential testing against a reference well-formedness checker",
   text="yaep_read_grammar's return code is compared with an independent checker of the documented defect classes: 0 iff no defect, a non-zero code must name a defect that is present, and the object must then refuse to parse.",
   note="Which of several defects is reported is unspecified: only presence of the reported class is required."),
 "C11": dict(cat="exploration", tech="printer/reader round trip: description text vs callback-defined twin, plus byte-level mutation",
   text="Valid descriptions (printed with lexical variation from abstract grammars) must behave exactly like yaep_read_grammar on the denoted twin (return code and parse transcripts); mutated texts must yield a documented error code with a line number inside the text or, if still valid by the independent reader, again equal the twin.",
   note="Texts the manual does not settle are classified grey and only required not to crash."),
 "C12": dict(cat="exploration", tech="ASan+UBSan (fatal reports) over hostile generated inputs, message-length hook, watchdog",
   text="Arbitrary byte strings and mutated descriptions, grammars with 300-char names / hundreds of symbols / sparse, dense and clustered codes, arbitrary int token streams and flag values run under ASan+UBSan with poisoned allocations in normal and tiny-segment builds; any report, signal, exit, hang or over-long message is a violation.",
   note="Sanitizers see whole malloc blocks only; absence of reports is not memory safety. Stack depth is bounded by a 1 GB stack limit."),
 "C13": dict(cat="exploration", tech="shadow heap over parse_alloc/parse_free/termcb with reachability walks before and after yaep_free_grammar",
   text="Every parse_free is checked against a shadow heap (unknown, foreign-parse, double free), everything reachable from the root must be live at return and unchanged after yaep_free_grammar, yaep_free_tree must free every block exactly once and call termcb once per TERM node; definition inputs are poisoned and freed right after the defining call.",
   note="Default-allocator trees are accounted through the renamed malloc family of the vf build."),
 "C14": dict(cat="exploration", tech="history checking: every call in a random API history compared with the same call on a fresh object",
   text="Random histories over <=3 live objects (create/set/define good/define bad/redefine/parse/free_tree/free in any order) are executed once; each parse/define observation must equal the observation of the same call on a fresh object carrying only that object's current definition and settings (computed in separate driver cases); allocator accounting must return to zero.",
   note="Fresh-object expectations come from the same library (metamorphic), not from a model."),
 "C15": dict(cat="exploration", tech="API contract model (error state, token validation, setters) checked over random short histories",
   text="A small sequential model of the documented contract (error code/message persistence, invalid-token detection incl. in-gap codes, undefined grammar, NULL allocator with non-NULL free, setter return values, defaults, lookahead clamping) judges every call of random histories.",
   note="Message text is only required to be non-empty and equal to what a fresh object yields for the same failing call."),
 "C16": dict(cat="exploration", tech="differential testing C driver vs C++ driver on identical scenario files, both under ASan/UBSan",
   text="The same scenario files (all families used by C01-C15, plus large inputs that make the C++ containers grow) run through libyaep and through class yaep; transcripts must be identical and the C++ build must be free of sanitizer reports (incl. alloc-dealloc-mismatch).",
   note="Pointers are abstracted to ids/positions by the driver before comparison."),
 "C17": dict(cat="fault_enumeration", tech="failing-allocator enumeration: k-th library allocation returns NULL, for every k of each scenario",
   text="For a fixed corpus of scenarios the library is built with malloc/calloc/realloc/free renamed to counting wrappers; for every k up to the fault-free allocation count the k-th request fails: the faulted call must return NULL / YAEP_NO_MEMORY, nothing may crash (ASan/UBSan), the object must be freeable and an untouched second object must still give its fault-free results. Cold and warm (after a previous successful definition+parse) variants.",
   note="Reach is the stated corpus; exhaustive over k for it (quick tier samples k for the larger scenarios)."),
 "C18": dict(cat="exploration", tech="machine-independent work counters (allocator bytes, hash probes, set statistics hook) over doubling input sizes",
   text="For deterministic grammar families and lookahead levels 0-2, bytes requested from the allocator and hash probes are measured at doubling input lengths; growth per doubling, whole-range exponent, per-token ceilings relative to a stored baseline, constant set cores and goto-cache reuse are checked. No wall-clock enters a verdict.",
   note="A calibrated regression monitor: constant-factor slowdowns below 2x are invisible."),
 "C19": dict(cat="exploration", tech="model-based random operation sequences on both container implementations under ASan/UBSan",
   text="Random bounded operation sequences (sizes around segment/growth boundaries, colliding hash functions) run on the C and C++ hash table, object stack and VLO, also with tiny segments; after every operation the container is compared with a trivial reference model (membership set / byte array, finished objects never move or change).",
   note="Models are the documented abstract contents; objects inside one segment have no red zones and are checked by content."),
}


def main():
    ready = READY
    if ready is None:
        ready = sorted(f[:-3].upper() for f in os.listdir('/verif/vlib') if f[0] == 'c' and f[1:3].isdigit() and f.endswith('.py'))
    commits = subprocess.run(["git", "-C", "/repo", "log", "--format=%h %s"], capture_output=True, text=True).stdout.splitlines()
    hook_commits = [c.split()[0] for c in commits if c.split(" ", 1)[1].startswith("verif:")]
    checks = []
    for pid in sorted(CHECKS):
        if pid not in ready:
            continue
        c = CHECKS[pid]
        checks.append({
            "property_id": pid,
            "quick_cmd": "python3 vf.py check %s --tier quick" % pid,
            "thorough_cmd": "python3 vf.py check %s --tier thorough" % pid,
            "evidence_file": "/verif/evidence/%s.json" % pid,
            "replay_cmd_template": "python3 vf.py replay {path}",
            "engine": "vf",
            "level_claimed": {"category": c["cat"], "text": c["text"], "design_ref": "DESIGN.md section 4, %s" % pid},
            "level_note": c["note"],
            "technique": c["tech"],
        })
    na = [{"property_id": pid, "reason": "check still under construction in this session (runtime monitoring applies; see DESIGN.md section 4); not claimed until it is silent on the unchanged tree"}
          for pid in sorted(CHECKS) if pid not in ready]
    m = {
        "version": 1,
        "setup_cmd": "python3 vf.py setup",
        "hooks": {
            "guard": "YAEP_VERIF",
            "enable": "checks compile /repo/src with -DYAEP_VERIF (see vlib/build.py); the nohook variant omits it",
            "baseline_off_cmd": "/verif/tools/repo_tests.sh",
            "source_commits": hook_commits,
            "add_only": True,
        },
        "engines": [{"name": "vf", "path": "/verif/vf.py", "serves_properties": [c["property_id"] for c in checks],
                     "kind_free_text": "scenario generator (Python) -> C driver over the real library built from /repo with ASan/UBSan and guarded hooks -> offline Python judges with reference models"}],
        "checks": checks,
        "notes": "Runtime monitoring and sanitizers only. Exit 0 held / 1 VIOLATION / 2 harness failure or too little observed. Known findings: /verif/known_findings.txt.",
        "not_applicable": na,
    }
    with open('/verif/MANIFEST.json', 'w') as fh:
        json.dump(m, fh, indent=1)
    print("MANIFEST: %d checks, %d not claimed" % (len(checks), len(na)))


if __name__ == "__main__":
    main()
