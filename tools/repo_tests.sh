#!/bin/sh
# Build the repository the way its own test suite is built (hooks OFF) and run
# the pinned baseline: every test in BASELINE.json's stable_pass must pass.
set -e
REPO=${VERIF_REPO:-/repo}
B=$REPO/_build
[ -f $B/build.ninja ] || cmake -G Ninja -B $B -S $REPO -DCMAKE_BUILD_TYPE=RelWithDebInfo -DCMAKE_C_FLAGS=-Wno-error -DCMAKE_CXX_FLAGS=-Wno-error >/dev/null
# a fresh build directory needs two passes (the ansic targets of the repository link before libyaep.a exists)
ok=0
for pass in 1 2 3 4; do
  if cmake --build $B >/dev/null 2>&1; then ok=1; break; fi
done
[ $ok = 1 ] || { cmake --build $B 2>&1 | tail -30; echo "BUILD FAILED"; exit 1; }
J=$(mktemp /tmp/vf_junit.XXXXXX)
ctest --test-dir $B -j8 --timeout 900 --output-junit $J >/dev/null 2>&1 || true
python3 - "$J" <<'P'
import json, sys, xml.etree.ElementTree as ET
base = json.load(open('/root/.vp/BASELINE.json'))
want = set(x.split('::')[0] for x in base['stable_pass'])
t = ET.parse(sys.argv[1]).getroot()
ok = set()
for tc in t.iter('testcase'):
    if tc.get('status') == 'run' and tc.find('failure') is None:
        ok.add(tc.get('name'))
missing = sorted(want - ok)
print("baseline: %d/%d stable tests pass" % (len(want & ok), len(want)))
if missing:
    print("FAILED:", " ".join(missing))
    sys.exit(1)
P
rc=$?
rm -f $J
exit $rc
