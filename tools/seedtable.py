#!/usr/bin/env python3
"""Print the markdown table of seeded changes (from seeded/*/meta.json)."""
import json, os
rows = []
for sid in sorted(os.listdir("/verif/seeded")):
    p = os.path.join("/verif/seeded", sid, "meta.json")
    if not os.path.exists(p):
        continue
    m = json.load(open(p))
    v = m.get("verification", {})
    checks = v.get("checks", {})
    caught = [k for k, c in checks.items() if c["exit"] == 1]
    missed = [k for k, c in checks.items() if c["exit"] == 0]
    keys = []
    for k in caught:
        for l in checks[k]["first_lines"][:1]:
            if "key=" in l:
                keys.append(l.split("key=")[1].split(" ")[0])
    dbs = v.get("detection_by_seed")
    rate = ""
    if dbs:
        ex = dbs["exit_by_seed"]
        first = checks.get(dbs["check"], {}).get("exit")
        allx = ([first] if first is not None else []) + list(ex.values())
        rate = "%s: %d/%d" % (dbs["check"], sum(1 for x in allx if x == 1), len(allx))
        if any(x not in (0, 1) for x in allx):
            rate += " (+%d harness)" % sum(1 for x in allx if x not in (0, 1))
    rows.append("| %s | %s | %s | %s | %s | %s | %s |" % (
        sid, m.get("property"), m.get("summary", "").replace("|", "/")[:230], m.get("needs", "").replace("|", "/")[:200],
        ", ".join(caught) + ((" (silent: " + ", ".join(missed) + ")") if missed else ""), rate, "; ".join(keys)[:120]))
print("| id | property | change | needs to manifest | caught by (quick tier, seed 1) | targeted check over seeds 1-4 | first violation key |")
print("|---|---|---|---|---|---|---|")
print("\n".join(rows))
