"""Whitespace-insensitive single replacement helper for patching /repo sources.
The replacement text is inserted verbatim (caller provides exact indentation)."""
import re
def edit(path, old, new):
    s = open(path).read()
    parts = old.split()
    rx = r'[ \t]*' + r'\s+'.join(re.escape(x) for x in parts)
    ms = list(re.finditer(rx, s))
    assert len(ms) == 1, (old, len(ms))
    m = ms[0]
    open(path, 'w').write(s[:m.start()] + new + s[m.end():])
