#!/usr/bin/env python3
"""judge1.py <replay.json>: re-run one recorded semantic case (grammar/input/config) and re-judge it with the
property's judge; prints the violation keys found (empty list = held)."""
import json, sys
sys.path.insert(0, '/verif')
from vlib import sem, oracle, recx, semx, c01
from vlib.gram import Grammar
o = json.load(open(sys.argv[1]))
pid = o["property"]
g = Grammar.from_json(o["grammar"])
cfgs = [o["config"]] if "config" in o else sem.ALL_CONFIGS
ci = sem.CaseInfo(o.get("cid", 0), g, o.get("strict", 1), o["input"], cfgs, o.get("gname", ""))
tr = sem.run_cases(o.get("variant", "asan"), [ci], None)
sh = sem.Shard()
ref = oracle.Ref(g)
if pid in recx.JUDGES:
    recx.JUDGES[pid](sh, ci, tr[ci.cid], ref, {})
elif pid in semx.JUDGES:
    semx.JUDGES[pid](sh, ci, tr[ci.cid], ref, {})
elif pid == "C01":
    c01.judge(sh, ci, tr[ci.cid], ref)
print(json.dumps({"violations": [(k, t[:300]) for k, t, r in sh.viol], "inconclusive": sh.inconclusive, "counters": sh.counters}, indent=1))
