#!/usr/bin/env python3
"""try.py <variant> <scenario-file> : run a scenario, print per-case status."""
import sys, os
sys.path.insert(0, os.path.dirname(os.path.dirname(os.path.abspath(__file__))))
from vlib import build, run
exe = build.build(sys.argv[1])
cs = run.run_scenario(exe, sys.argv[2])
verbose = len(sys.argv) > 3
for cid, c in cs.items():
    print(cid, c.status, c.key)
    if verbose:
        for s in c.steps:
            print("   ", s)
        if c.report:
            print(c.report[:3000])
