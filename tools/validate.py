#!/opt/veriftools/pyvenv/bin/python
"""Validate MANIFEST.json and evidence files against the given schemas."""
import json, sys, glob, jsonschema
ok = True
try:
    m = json.load(open('/verif/MANIFEST.json'))
    jsonschema.validate(m, json.load(open('/root/.vp/MANIFEST.schema.json')))
    print("MANIFEST ok:", len(m['checks']), "checks")
except Exception as e:
    ok = False
    print("MANIFEST:", str(e)[:300])
es = json.load(open('/root/.vp/EVIDENCE.schema.json'))
for f in sorted(glob.glob('/verif/evidence/*.json')):
    try:
        jsonschema.validate(json.load(open(f)), es)
        print("evidence ok:", f)
    except Exception as e:
        ok = False
        print("evidence BAD:", f, str(e)[:300])
sys.exit(0 if ok else 1)
