#!/usr/bin/env python3
"""vf.py -- entry point of the YAEP runtime-verification machinery.

  vf.py check <Cxx> [--tier quick|thorough]
  vf.py replay <path>
  vf.py selftest
  vf.py setup
"""
import sys, os, importlib
sys.path.insert(0, os.path.dirname(os.path.abspath(__file__)))
from vlib import core


def main():
    a = sys.argv[1:]
    if not a:
        print(__doc__)
        return 2
    cmd = a[0]
    if cmd == "check":
        pid = a[1]
        tier = os.environ.get("VERIF_TIER", "quick")
        if "--tier" in a:
            tier = a[a.index("--tier") + 1]
        if tier not in ("quick", "thorough"):
            raise core.HarnessError("bad tier " + tier)
        mod = importlib.import_module("vlib.%s" % pid.lower())
        return mod.check(tier)
    if cmd == "replay":
        from vlib import replay
        return replay.replay(a[1])
    if cmd == "selftest":
        from vlib import selftest
        return selftest.run()
    if cmd == "setup":
        from vlib import build
        vs = ["asan", "asan-small", "asan++", "asan++-small", "plain", "vf", "vf-small", "vf-plain", "nohook",
              "cont", "cont-small", "cont++", "cont++-small"]
        build.build_many(vs)
        print("setup: built", " ".join(vs))
        from vlib import selftest, ansic
        ansic.ensure()
        return selftest.run()
    print(__doc__)
    return 2


if __name__ == "__main__":
    core.main_wrap(main)
