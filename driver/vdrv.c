/* vdrv.c -- scenario interpreter over the real YAEP library.

   Pure C (C99) that also compiles as C++11 against class yaep.  Reads a
   line-oriented scenario file, executes every step through the public API
   only, and records what crossed the API boundary as JSON lines.  In-process
   monitors that must be atomic with what they shadow live here: the shadow
   heap over parse_alloc/parse_free/termcb, the counting/failing allocator
   (vf build), the hook event recorder and the tree/DAG dumper.  All semantic
   judgement happens offline in Python.  */

#include <stdio.h>
#include <stdlib.h>
#include <string.h>
#include <stdint.h>
#include <unistd.h>
#include <setjmp.h>
#include <fcntl.h>

#include "yaep.h"

#ifdef __cplusplus
typedef yaep *gobj_t;
#define G_CREATE() (new yaep ())
#define G_FREE(g) delete (g)
#define G_ERRCODE(g) ((g)->error_code ())
#define G_ERRMSG(g) ((g)->error_message ())
#define G_READ(g, s, rt, rr) ((g)->read_grammar (s, rt, rr))
#define G_DESC(g, s, d) ((g)->parse_grammar (s, d))
#define G_SET_LA(g, v) ((g)->set_lookahead_level (v))
#define G_SET_DBG(g, v) ((g)->set_debug_level (v))
#define G_SET_ONE(g, v) ((g)->set_one_parse_flag (v))
#define G_SET_COST(g, v) ((g)->set_cost_flag (v))
#define G_SET_REC(g, v) ((g)->set_error_recovery_flag (v))
#define G_SET_MATCH(g, v) ((g)->set_recovery_match (v))
#define G_PARSE(g, rt, se, pa, pf, root, amb) ((g)->parse (rt, se, pa, pf, root, amb))
#define G_FREE_TREE(r, pf, cb) yaep::free_tree (r, pf, cb)
#define IMPL "c++"
#else
typedef struct grammar *gobj_t;
#define G_CREATE() yaep_create_grammar ()
#define G_FREE(g) yaep_free_grammar (g)
#define G_ERRCODE(g) yaep_error_code (g)
#define G_ERRMSG(g) yaep_error_message (g)
#define G_READ(g, s, rt, rr) yaep_read_grammar (g, s, rt, rr)
#define G_DESC(g, s, d) yaep_parse_grammar (g, s, d)
#define G_SET_LA(g, v) yaep_set_lookahead_level (g, v)
#define G_SET_DBG(g, v) yaep_set_debug_level (g, v)
#define G_SET_ONE(g, v) yaep_set_one_parse_flag (g, v)
#define G_SET_COST(g, v) yaep_set_cost_flag (g, v)
#define G_SET_REC(g, v) yaep_set_error_recovery_flag (g, v)
#define G_SET_MATCH(g, v) yaep_set_recovery_match (g, v)
#define G_PARSE(g, rt, se, pa, pf, root, amb) yaep_parse (g, rt, se, pa, pf, root, amb)
#define G_FREE_TREE(r, pf, cb) yaep_free_tree (r, pf, cb)
#define IMPL "c"
#endif

static FILE *out;

static void
die (const char *msg)
{
  fprintf (stderr, "vdrv: %s\n", msg);
  if (out != NULL)
    {
      fprintf (out, "{\"harness_error\":\"%s\"}\n", msg);
      fflush (out);
    }
  _exit (3);
}

static void *
xmalloc (size_t n)
{
  void *p = malloc (n == 0 ? 1 : n);
  if (p == NULL)
    die ("out of memory in driver");
  return p;
}

static void *
xrealloc (void *q, size_t n)
{
  void *p = realloc (q, n == 0 ? 1 : n);
  if (p == NULL)
    die ("out of memory in driver");
  return p;
}

/* ---------------------------------------------------------------- JSON */

static void
jstr (const char *s)
{
  const unsigned char *p = (const unsigned char *) s;
  fputc ('"', out);
  for (; *p; p++)
    {
      if (*p == '"' || *p == '\\')
	{
	  fputc ('\\', out);
	  fputc (*p, out);
	}
      else if (*p < 0x20 || *p >= 0x7f)
	fprintf (out, "\\u%04x", *p);
      else
	fputc (*p, out);
    }
  fputc ('"', out);
}

/* ------------------------------------------------- counting allocator */

static long vf_requests;	/* allocation requests seen (malloc/calloc/realloc) */
static long vf_fail_at;		/* absolute request number to fail, 0 = none */
static long vf_fail_from;	/* fail every request with number >= this, 0 = none */
static int vf_fault_fired;
static long vf_live_blocks, vf_live_bytes, vf_total_bytes;

#ifdef VF_ALLOC
#define VF_MAGIC 0x5646414cUL
struct vf_hdr
{
  size_t size;
  size_t magic;
};

static int
vf_should_fail (void)
{
  vf_requests++;
  if ((vf_fail_at != 0 && vf_requests == vf_fail_at)
      || (vf_fail_from != 0 && vf_requests >= vf_fail_from))
    {
      vf_fault_fired++;
      return 1;
    }
  return 0;
}

#ifdef __cplusplus
extern "C" {
#endif
void *
vf_malloc (size_t n)
{
  struct vf_hdr *h;
  if (vf_should_fail ())
    return NULL;
  h = (struct vf_hdr *) malloc (sizeof (struct vf_hdr) + n);
  if (h == NULL)
    die ("real malloc failed");
  h->size = n;
  h->magic = VF_MAGIC;
  vf_live_blocks++;
  vf_live_bytes += n;
  vf_total_bytes += n;
  return (void *) (h + 1);
}

void *
vf_calloc (size_t a, size_t b)
{
  void *p = vf_malloc (a * b);
  if (p != NULL)
    memset (p, 0, a * b);
  return p;
}

void
vf_free (void *p)
{
  struct vf_hdr *h;
  if (p == NULL)
    return;
  h = (struct vf_hdr *) p - 1;
  if (h->magic != VF_MAGIC)
    {
      fprintf (out, "{\"vf_bad_free\":1}\n");
      fflush (out);
      /* let ASan speak */
      free (p);
      return;
    }
  h->magic = 0;
  vf_live_blocks--;
  vf_live_bytes -= h->size;
  free (h);
}

void *
vf_realloc (void *p, size_t n)
{
  struct vf_hdr *h, *nh;
  if (p == NULL)
    return vf_malloc (n);
  if (vf_should_fail ())
    return NULL;
  h = (struct vf_hdr *) p - 1;
  if (h->magic != VF_MAGIC)
    die ("vf_realloc of foreign block");
  /* always move: a realloc that happens to stay in place hides stale
     pointers */
  nh = (struct vf_hdr *) malloc (sizeof (struct vf_hdr) + n);
  if (nh == NULL)
    die ("real malloc failed");
  memcpy (nh + 1, h + 1, h->size < n ? h->size : n);
  nh->size = n;
  nh->magic = VF_MAGIC;
  vf_live_bytes += (long) n - (long) h->size;
  if (n > h->size)
    vf_total_bytes += n - h->size;
  h->magic = 0;
  free (h);
  return (void *) (nh + 1);
}

void
vf_exit (int code)
{
  fprintf (out, "{\"exit_called\":%d}\n", code);
  fflush (out);
  _exit (97);
}
#ifdef __cplusplus
}
#endif
#endif /* VF_ALLOC */

/* ------------------------------------------------------ hook recorder */

#define N_KINDS 40
static long hk_count[N_KINDS], hk_maxa[N_KINDS], hk_sumb[N_KINDS], hk_lastc[N_KINDS],
  hk_lasta[N_KINDS], hk_zeroa[N_KINDS], hk_posb[N_KINDS];

#ifndef NO_HOOKS
extern void (*yaep_verif_event) (int kind, long a, long b, long c);
extern int yaep_verif_h2_enabled;
#else
static void (*yaep_verif_event) (int kind, long a, long b, long c);
static int yaep_verif_h2_enabled;
#endif

static void
hook_event (int kind, long a, long b, long c)
{
  if (kind < 0 || kind >= N_KINDS)
    return;
  if (hk_count[kind] == 0 || a > hk_maxa[kind])
    hk_maxa[kind] = a;
  hk_count[kind]++;
  if (a == 0)
    hk_zeroa[kind]++;
  if (b > 0)
    hk_posb[kind]++;
  hk_sumb[kind] += b;
  hk_lastc[kind] = c;
  hk_lasta[kind] = a;
}

static void
hooks_reset (void)
{
  memset (hk_count, 0, sizeof hk_count);
  memset (hk_maxa, 0, sizeof hk_maxa);
  memset (hk_sumb, 0, sizeof hk_sumb);
  memset (hk_lastc, 0, sizeof hk_lastc);
  memset (hk_lasta, 0, sizeof hk_lasta);
  memset (hk_zeroa, 0, sizeof hk_zeroa);
  memset (hk_posb, 0, sizeof hk_posb);
}

static void
hooks_print (void)
{
  int k, first = 1;
  fprintf (out, ",\"hk\":{");
  for (k = 0; k < N_KINDS; k++)
    if (hk_count[k] != 0)
      {
	fprintf (out, "%s\"%d\":[%ld,%ld,%ld,%ld,%ld,%ld,%ld]", first ? "" : ",", k,
		 hk_count[k], hk_maxa[k], hk_sumb[k], hk_lastc[k], hk_lasta[k], hk_zeroa[k], hk_posb[k]);
	first = 0;
      }
  fprintf (out, "}");
}

/* --------------------------------------------------------- shadow heap */

struct sh_ent
{
  void *p;
  size_t size;
  int epoch;
  int state;			/* 1 live, 2 freed */
};
static struct sh_ent *sh_tab;
static size_t sh_cap, sh_n;
static int cur_epoch;
static int in_library;		/* inside an API call that may call parse_free */
static long n_palloc, n_pfree, n_termcb;

/* bad events of the shadow heap, printed with the step that produced them */
static char badbuf[4096];
static size_t badlen;
static long bad_total;

static void
bad (const char *what, long a)
{
  bad_total++;
  if (badlen + 80 < sizeof badbuf)
    badlen += sprintf (badbuf + badlen, "%s[\"%s\",%ld]", badlen ? "," : "", what, a);
}

static size_t
sh_hash (void *p)
{
  uintptr_t x = (uintptr_t) p;
  x ^= x >> 17;
  x *= 0x9E3779B97F4A7C15ULL;
  x ^= x >> 29;
  return (size_t) x;
}

static struct sh_ent *
sh_find (void *p, int create)
{
  size_t i;
  if (sh_cap == 0 || (create && sh_n * 2 >= sh_cap))
    {
      size_t ncap = sh_cap ? sh_cap * 2 : 1024, j;
      struct sh_ent *nt = (struct sh_ent *) xmalloc (ncap * sizeof *nt);
      memset (nt, 0, ncap * sizeof *nt);
      for (j = 0; j < sh_cap; j++)
	if (sh_tab[j].p != NULL)
	  {
	    i = sh_hash (sh_tab[j].p) & (ncap - 1);
	    while (nt[i].p != NULL)
	      i = (i + 1) & (ncap - 1);
	    nt[i] = sh_tab[j];
	  }
      free (sh_tab);
      sh_tab = nt;
      sh_cap = ncap;
    }
  i = sh_hash (p) & (sh_cap - 1);
  while (sh_tab[i].p != NULL)
    {
      if (sh_tab[i].p == p)
	return &sh_tab[i];
      i = (i + 1) & (sh_cap - 1);
    }
  if (!create)
    return NULL;
  sh_tab[i].p = p;
  sh_n++;
  return &sh_tab[i];
}

static void *
u_alloc (int nmemb)
{
  void *p;
  struct sh_ent *e;
  n_palloc++;
  if (nmemb <= 0)
    bad ("alloc_nonpositive", nmemb);
  p = xmalloc ((size_t) (nmemb > 0 ? nmemb : 1));
  memset (p, 0xCD, (size_t) (nmemb > 0 ? nmemb : 1));
  e = sh_find (p, 1);
  e->size = (size_t) (nmemb > 0 ? nmemb : 1);
  e->epoch = cur_epoch;
  e->state = 1;
  return p;
}

static void
u_free (void *p)
{
  struct sh_ent *e;
  n_pfree++;
  if (p == NULL)
    {
      bad ("free_null", 0);
      return;
    }
  e = sh_find (p, 0);
  if (e == NULL)
    {
      bad ("free_unknown", 0);
      return;
    }
  if (e->state != 1)
    {
      bad ("double_free", e->epoch);
      return;
    }
  if (e->epoch != cur_epoch)
    bad ("free_foreign_parse", e->epoch);
  e->state = 2;
  free (p);
}

static long
sh_live_in_epoch (int epoch)
{
  size_t i;
  long n = 0;
  for (i = 0; i < sh_cap; i++)
    if (sh_tab[i].p != NULL && sh_tab[i].state == 1 && sh_tab[i].epoch == epoch)
      n++;
  return n;
}

static void
sh_release_all (void)
{
  size_t i;
  for (i = 0; i < sh_cap; i++)
    if (sh_tab[i].p != NULL && sh_tab[i].state == 1)
      free (sh_tab[i].p);
  free (sh_tab);
  sh_tab = NULL;
  sh_cap = sh_n = 0;
}

static void
u_termcb (struct yaep_term *t)
{
  (void) t;
  n_termcb++;
}

/* ------------------------------------------------ pending definitions */

struct pterm
{
  char *name;
  int code;
};
struct prule
{
  char *lhs;
  char *anode;
  int cost;
  int nrhs;
  char **rhs;			/* NULL terminated, exact size */
  int *transl;			/* negative terminated or NULL */
};
static struct pterm *pterms;
static int n_pterms, i_pterm;
static struct prule *prules;
static int n_prules, i_prule;

static const char *
cb_read_terminal (int *code)
{
  if (i_pterm >= n_pterms)
    return NULL;
  *code = pterms[i_pterm].code;
  return pterms[i_pterm++].name;
}

static const char *
cb_read_rule (const char ***rhs, const char **anode, int *cost, int **transl)
{
  struct prule *r;
  if (i_prule >= n_prules)
    return NULL;
  r = &prules[i_prule++];
  *rhs = (const char **) r->rhs;
  *anode = r->anode;
  *cost = r->cost;
  *transl = r->transl;
  return r->lhs;
}

static void
pending_clear (void)
{
  int i, j;
  /* poison before free so that a retained pointer reads garbage even
     without ASan */
  for (i = 0; i < n_pterms; i++)
    {
      memset (pterms[i].name, 0xDD, strlen (pterms[i].name));
      free (pterms[i].name);
    }
  for (i = 0; i < n_prules; i++)
    {
      memset (prules[i].lhs, 0xDD, strlen (prules[i].lhs));
      free (prules[i].lhs);
      if (prules[i].anode)
	{
	  memset (prules[i].anode, 0xDD, strlen (prules[i].anode));
	  free (prules[i].anode);
	}
      for (j = 0; j < prules[i].nrhs; j++)
	{
	  memset (prules[i].rhs[j], 0xDD, strlen (prules[i].rhs[j]));
	  free (prules[i].rhs[j]);
	}
      free (prules[i].rhs);
      free (prules[i].transl);
    }
  free (pterms);
  free (prules);
  pterms = NULL;
  prules = NULL;
  n_pterms = n_prules = i_pterm = i_prule = 0;
}

/* ------------------------------------------------------------- tokens */

static int *ptoks;
static int n_ptoks, cap_ptoks, i_ptok, tok_end_code = -1;
struct cell
{
  int pos;
};
static struct cell *cur_cells;
static int cur_ncells;

static int
cb_read_token (void **attr)
{
  if (i_ptok >= n_ptoks)
    {
      /* the attribute delivered together with the end-of-input code is not
         part of the input: a careless caller leaves something there */
      static struct cell end_sentinel;
      *attr = &end_sentinel;
      return tok_end_code;
    }
  *attr = &cur_cells[i_ptok];
  return ptoks[i_ptok++];
}

static long
attrpos (void *a, struct cell *cells, int ncells)
{
  if (a == NULL)
    return -1;
  if ((char *) a >= (char *) cells && (char *) a < (char *) (cells + ncells)
      && ((char *) a - (char *) cells) % sizeof (struct cell) == 0)
    return (long) ((struct cell *) a - cells);
  return -2;
}

/* syntax error records */
static long *errs;
static int n_errs, cap_errs;

static void
cb_syntax_error (int e, void *ea, int s, void *sa, int r, void *ra)
{
  if (n_errs + 6 > cap_errs)
    {
      cap_errs = cap_errs ? cap_errs * 2 : 60;
      errs = (long *) xrealloc (errs, cap_errs * sizeof (long));
    }
  errs[n_errs++] = e;
  errs[n_errs++] = attrpos (ea, cur_cells, cur_ncells);
  errs[n_errs++] = s;
  errs[n_errs++] = attrpos (sa, cur_cells, cur_ncells);
  errs[n_errs++] = r;
  errs[n_errs++] = attrpos (ra, cur_cells, cur_ncells);
}

/* -------------------------------------------------------------- trees */

struct tree
{
  struct yaep_tree_node *root;
  struct cell *cells;
  int ncells;
  int epoch;
  int amode;
  int freed;
};
static struct tree *trees;
static int n_trees, cap_trees;

/* pointer -> id map for the dumper */
struct idm_ent
{
  void *p;
  long id;
};
static struct idm_ent *idm;
static size_t idm_cap, idm_n;

static void
idm_reset (void)
{
  free (idm);
  idm = NULL;
  idm_cap = idm_n = 0;
}

static long *
idm_get (void *p, int *isnew)
{
  size_t i;
  if (idm_cap == 0 || idm_n * 2 >= idm_cap)
    {
      size_t ncap = idm_cap ? idm_cap * 2 : 256, j;
      struct idm_ent *nt = (struct idm_ent *) xmalloc (ncap * sizeof *nt);
      memset (nt, 0, ncap * sizeof *nt);
      for (j = 0; j < idm_cap; j++)
	if (idm[j].p != NULL)
	  {
	    i = sh_hash (idm[j].p) & (ncap - 1);
	    while (nt[i].p != NULL)
	      i = (i + 1) & (ncap - 1);
	    nt[i] = idm[j];
	  }
      free (idm);
      idm = nt;
      idm_cap = ncap;
    }
  i = sh_hash (p) & (idm_cap - 1);
  while (idm[i].p != NULL)
    {
      if (idm[i].p == p)
	{
	  *isnew = 0;
	  return &idm[i].id;
	}
      i = (i + 1) & (idm_cap - 1);
    }
  idm[i].p = p;
  idm[i].id = (long) idm_n++;
  *isnew = 1;
  return &idm[i].id;
}

/* Work list based numbering (pre-order of discovery), then print in id
   order.  nodes[] keeps the pointers by id. */
static struct yaep_tree_node **dnodes;
static size_t dn, dcap;

static long
dump_id (struct yaep_tree_node *n)
{
  int isnew;
  long *id = idm_get (n, &isnew);
  if (isnew)
    {
      if (dn >= dcap)
	{
	  dcap = dcap ? dcap * 2 : 256;
	  dnodes = (struct yaep_tree_node **) xrealloc (dnodes, dcap * sizeof *dnodes);
	}
      dnodes[dn++] = n;
    }
  return *id;
}

/* check that block P (of a user-allocated tree) is live; returns its size or 0 */
static size_t
live_size (void *p, int amode, const char *what)
{
  struct sh_ent *e;
  if (amode != 1 && amode != 2)
    return (size_t) -1;
  e = sh_find (p, 0);
  if (e == NULL)
    {
      bad (what, 0);
      return 0;
    }
  if (e->state != 1)
    {
      bad (what, 2);
      return 0;
    }
  return e->size;
}

static long n_term_nodes_dumped;

static void
dump_tree (struct tree *t, int mode)
{
  size_t i;
  unsigned long long h = 1469598103934665603ULL;
  idm_reset ();
  dn = 0;
  n_term_nodes_dumped = 0;
  if (t->root == NULL)
    {
      fprintf (out, ",\"root\":-1");
      return;
    }
  dump_id (t->root);
  if (mode == 'f')
    fprintf (out, ",\"root\":0,\"tree\":[");
  for (i = 0; i < dn; i++)
    {
      struct yaep_tree_node *n = dnodes[i];
      size_t bs = live_size (n, t->amode, "node_not_live");
      if (i && mode == 'f')
	fputc (',', out);
      if (bs == 0)
	{
	  if (mode == 'f')
	    fprintf (out, "[\"X\"]");
	  continue;
	}
      if (bs != (size_t) -1 && bs < sizeof (struct yaep_tree_node))
	{
	  bad ("node_block_too_small", (long) bs);
	  if (mode == 'f')
	    fprintf (out, "[\"X\"]");
	  continue;
	}
      switch ((int) n->type)
	{
	case YAEP_NIL:
	  if (mode == 'f')
	    fprintf (out, "[\"N\"]");
	  h = (h ^ 11) * 1099511628211ULL;
	  break;
	case YAEP_ERROR:
	  if (mode == 'f')
	    fprintf (out, "[\"E\"]");
	  h = (h ^ 12) * 1099511628211ULL;
	  break;
	case YAEP_TERM:
	  n_term_nodes_dumped++;
	  if (mode == 'f')
	    fprintf (out, "[\"T\",%d,%ld]", n->val.term.code,
		     attrpos (n->val.term.attr, t->cells, t->ncells));
	  h = (h ^ 13) * 1099511628211ULL;
	  h = (h ^ (unsigned) n->val.term.code) * 1099511628211ULL;
	  h = (h ^ (unsigned long) attrpos (n->val.term.attr, t->cells, t->ncells)) * 1099511628211ULL;
	  break;
	case YAEP_ANODE:
	  {
	    size_t k, maxk;
	    const char *name = n->val.anode.name;
	    struct yaep_tree_node **ch = n->val.anode.children;
	    size_t ns;
	    if (name == NULL)
	      {
		bad ("anode_name_null", 0);
		name = "";
	      }
	    else
	      {
		ns = live_size ((void *) name, t->amode, "name_not_live");
		if (ns == 0)
		  name = "?";
		else if (ns != (size_t) -1 && memchr (name, 0, ns) == NULL)
		  {
		    bad ("name_unterminated", (long) ns);
		    name = "?";
		  }
	      }
	    if (mode == 'f')
	      {
		fprintf (out, "[\"A\",");
		jstr (name);
		fprintf (out, ",%d,[", n->val.anode.cost);
	      }
	    h = (h ^ 14) * 1099511628211ULL;
	    for (k = 0; name[k]; k++)
	      h = (h ^ (unsigned char) name[k]) * 1099511628211ULL;
	    h = (h ^ (unsigned) n->val.anode.cost) * 1099511628211ULL;
	    maxk = (size_t) -1;
	    if (bs != (size_t) -1)
	      {
		/* children must lie inside the node's own block */
		if ((char *) ch != (char *) n + sizeof (struct yaep_tree_node))
		  {
		    bad ("children_not_in_block", 0);
		    maxk = 0;
		  }
		else
		  maxk = (bs - sizeof (struct yaep_tree_node)) / sizeof (void *);
	      }
	    for (k = 0;; k++)
	      {
		long cid;
		if (k >= maxk)
		  {
		    if (maxk != 0)
		      bad ("children_unterminated", (long) maxk);
		    break;
		  }
		if (ch[k] == NULL)
		  break;
		cid = dump_id (ch[k]);
		if (mode == 'f')
		  fprintf (out, "%s%ld", k ? "," : "", cid);
		h = (h ^ (unsigned long) cid) * 1099511628211ULL;
	      }
	    if (mode == 'f')
	      fprintf (out, "]]");
	  }
	  break;
	case YAEP_ALT:
	  {
	    long a = -1, b = -1;
	    if (n->val.alt.node == NULL)
	      bad ("alt_node_null", 0);
	    else
	      a = dump_id (n->val.alt.node);
	    if (n->val.alt.next != NULL)
	      b = dump_id (n->val.alt.next);
	    if (mode == 'f')
	      fprintf (out, "[\"L\",%ld,%ld]", a, b);
	    h = (h ^ 15) * 1099511628211ULL;
	    h = (h ^ (unsigned long) a) * 1099511628211ULL;
	    h = (h ^ (unsigned long) b) * 1099511628211ULL;
	  }
	  break;
	default:
	  bad ("bad_node_type", (long) n->type);
	  if (mode == 'f')
	    fprintf (out, "[\"X\"]");
	}
    }
  if (mode == 'f')
    fprintf (out, "]");
  else
    fprintf (out, ",\"root\":0");
  fprintf (out, ",\"nn\":%lu,\"nt\":%ld,\"th\":\"%016llx\"", (unsigned long) dn,
	   n_term_nodes_dumped, h);
}

/* -------------------------------------------------------------- slots */

#define N_SLOTS 8
static gobj_t slots[N_SLOTS];

static void
print_err (gobj_t g)
{
  const char *m = G_ERRMSG (g);
  fprintf (out, ",\"ec\":%d,\"em\":", G_ERRCODE (g));
  jstr (m);
}

static void
print_bad (void)
{
  if (badlen)
    fprintf (out, ",\"bad\":[%s]", badbuf);
  else if (bad_total)
    fprintf (out, ",\"bad\":[[\"overflowed\",%ld]]", bad_total);
  badlen = 0;
  bad_total = 0;
}

static void
print_alloc (long a0, int f0)
{
  fprintf (out, ",\"a0\":%ld,\"a1\":%ld,\"fault\":%d,\"lb\":%ld,\"ly\":%ld,\"tb\":%ld", a0,
	   vf_requests, vf_fault_fired - f0, vf_live_blocks, vf_live_bytes, vf_total_bytes);
}

/* ------------------------------------------------------- line parsing */

static char *line;
static size_t linecap;
static char *cursor;

static char *
tok (void)
{
  char *s;
  while (*cursor == ' ')
    cursor++;
  if (*cursor == '\0' || *cursor == '\n')
    return NULL;
  s = cursor;
  while (*cursor != ' ' && *cursor != '\0' && *cursor != '\n')
    cursor++;
  if (*cursor != '\0')
    *cursor++ = '\0';
  return s;
}

static long
tokint (void)
{
  char *s = tok ();
  if (s == NULL)
    die ("missing integer");
  return strtol (s, NULL, 10);
}

static int
hexval (int c)
{
  if (c >= '0' && c <= '9')
    return c - '0';
  if (c >= 'a' && c <= 'f')
    return c - 'a' + 10;
  die ("bad hex");
  return 0;
}

/* "-" -> NULL, "x<hex>" -> bytes in an exact-size heap block (+NUL) */
static char *
tokstr (void)
{
  char *s = tok (), *r;
  size_t n, i;
  if (s == NULL)
    die ("missing string");
  if (strcmp (s, "-") == 0)
    return NULL;
  if (*s != 'x')
    die ("string must be - or x<hex>");
  s++;
  n = strlen (s) / 2;
  r = (char *) xmalloc (n + 1);
  for (i = 0; i < n; i++)
    r[i] = (char) (hexval (s[2 * i]) * 16 + hexval (s[2 * i + 1]));
  r[n] = '\0';
  return r;
}

static gobj_t
slot_of (long s)
{
  if (s < 0 || s >= N_SLOTS)
    die ("bad slot");
  return slots[s];
}

static void
end_case (long caseid)
{
  int i;
  /* release everything the case left behind: not judged, just hygiene */
  for (i = 0; i < N_SLOTS; i++)
    if (slots[i] != NULL)
      {
	G_FREE (slots[i]);
	slots[i] = NULL;
      }
  for (i = 0; i < n_trees; i++)
    {
      if (!trees[i].freed && trees[i].root != NULL && trees[i].amode == 0)
	G_FREE_TREE (trees[i].root, NULL, NULL);
      free (trees[i].cells);
    }
  n_trees = 0;
  sh_release_all ();
  pending_clear ();
  n_ptoks = 0;
  tok_end_code = -1;
  vf_fail_at = vf_fail_from = 0;
  yaep_verif_h2_enabled = 0;
  fprintf (out, "{\"e\":%ld,\"lb\":%ld,\"ly\":%ld}\n", caseid, vf_live_blocks, vf_live_bytes);
  fflush (out);
}

int
main (int argc, char **argv)
{
  FILE *in;
  long caseid = -1, skip_until = -1, only = -1;
  int in_case = 0, skipping = 0;
  int step = 0;
  ssize_t len;

  if (argc < 3)
    {
      fprintf (stderr, "usage: drv scenario output [first-case-index] [only-case-id]\n");
      return 2;
    }
  in = fopen (argv[1], "r");
  out = fopen (argv[2], "a");
  if (in == NULL || out == NULL)
    {
      fprintf (stderr, "cannot open files\n");
      return 2;
    }
  if (argc > 3)
    skip_until = atol (argv[3]);
  if (argc > 4)
    only = atol (argv[4]);
  setvbuf (out, NULL, _IOFBF, 1 << 16);
  {
    /* stderr (debug output of the library, UBSan reports) goes to a side
       file which is truncated at every case start, so it stays small and
       what it holds after a crash belongs to the crashed case.  */
    char *ep = (char *) xmalloc (strlen (argv[2]) + 5);
    int fd;
    sprintf (ep, "%s.err", argv[2]);
    fd = open (ep, O_WRONLY | O_CREAT | O_TRUNC, 0600);
    if (fd >= 0)
      {
	dup2 (fd, 2);
	close (fd);
      }
    free (ep);
  }
  yaep_verif_event = hook_event;
  {
    long ncase = 0;
    while ((len = getline (&line, &linecap, in)) > 0)
      {
	char *op;
	cursor = line;
	op = tok ();
	if (op == NULL || op[0] == '#')
	  continue;
	if (strcmp (op, "C") == 0)
	  {
	    if (in_case && !skipping)
	      end_case (caseid);
	    caseid = tokint ();
	    skipping = (ncase < skip_until) || (only >= 0 && caseid != only);
	    ncase++;
	    in_case = 1;
	    step = 0;
	    if (!skipping)
	      {
		fflush (stderr);
		if (ftruncate (2, 0) == 0)
		  lseek (2, 0, SEEK_SET);
		fprintf (out, "{\"b\":%ld,\"impl\":\"%s\"}\n", caseid, IMPL);
		fflush (out);
	      }
	    continue;
	  }
	if (!in_case)
	  die ("step outside case");
	if (skipping)
	  continue;
	step++;
	if (strcmp (op, "new") == 0)
	  {
	    long s = tokint ();
	    long a0 = vf_requests;
	    int f0 = vf_fault_fired;
	    if (slot_of (s) != NULL)
	      die ("slot in use");
	    slots[s] = G_CREATE ();
	    fprintf (out, "{\"op\":\"new\",\"slot\":%ld,\"null\":%d", s, slots[s] == NULL);
#ifdef __cplusplus
	    /* class yaep gives no way to learn that creation failed */
#endif
	    if (slots[s] != NULL)
	      print_err (slots[s]);
	    print_alloc (a0, f0);
	    fprintf (out, "}\n");
	  }
	else if (strcmp (op, "set") == 0)
	  {
	    long s = tokint ();
	    char *w = tok ();
	    long v = tokint ();
	    int old = 0;
	    gobj_t g = slot_of (s);
	    if (g == NULL)
	      {
		fprintf (out, "{\"op\":\"set\",\"slot\":%ld,\"skipped\":1}\n", s);
		continue;
	      }
	    if (strcmp (w, "la") == 0)
	      old = G_SET_LA (g, (int) v);
	    else if (strcmp (w, "dbg") == 0)
	      old = G_SET_DBG (g, (int) v);
	    else if (strcmp (w, "one") == 0)
	      old = G_SET_ONE (g, (int) v);
	    else if (strcmp (w, "cost") == 0)
	      old = G_SET_COST (g, (int) v);
	    else if (strcmp (w, "rec") == 0)
	      old = G_SET_REC (g, (int) v);
	    else if (strcmp (w, "match") == 0)
	      old = G_SET_MATCH (g, (int) v);
	    else
	      die ("bad param");
	    fprintf (out, "{\"op\":\"set\",\"slot\":%ld,\"w\":\"%s\",\"v\":%ld,\"old\":%d", s, w, v, old);
	    print_err (g);
	    fprintf (out, "}\n");
	  }
	else if (strcmp (op, "t") == 0)
	  {
	    pterms = (struct pterm *) xrealloc (pterms, (n_pterms + 1) * sizeof *pterms);
	    pterms[n_pterms].name = tokstr ();
	    if (pterms[n_pterms].name == NULL)
	      die ("NULL terminal name");
	    pterms[n_pterms].code = (int) tokint ();
	    n_pterms++;
	  }
	else if (strcmp (op, "r") == 0)
	  {
	    struct prule *r;
	    int i;
	    char *w;
	    prules = (struct prule *) xrealloc (prules, (n_prules + 1) * sizeof *prules);
	    r = &prules[n_prules];
	    r->lhs = tokstr ();
	    if (r->lhs == NULL)
	      die ("NULL lhs");
	    r->anode = tokstr ();
	    r->cost = (int) tokint ();
	    r->nrhs = (int) tokint ();
	    r->rhs = (char **) xmalloc ((r->nrhs + 1) * sizeof (char *));
	    for (i = 0; i < r->nrhs; i++)
	      r->rhs[i] = tokstr ();
	    r->rhs[r->nrhs] = NULL;
	    w = tok ();
	    if (w == NULL || strcmp (w, "N") == 0)
	      r->transl = NULL;
	    else
	      {
		int n = 0, cap = 4, sawneg = 0;
		char *s;
		r->transl = (int *) xmalloc (cap * sizeof (int));
		while ((s = tok ()) != NULL)
		  {
		    if (n + 2 > cap)
		      {
			cap *= 2;
			r->transl = (int *) xrealloc (r->transl, cap * sizeof (int));
		      }
		    r->transl[n++] = (int) strtol (s, NULL, 10);
		    if (r->transl[n - 1] < 0)
		      {
			sawneg = 1;
			break;
		      }
		  }
		if (!sawneg)
		  r->transl[n++] = -1;
		/* exact size so that reading past the terminator is seen */
		r->transl = (int *) xrealloc (r->transl, n * sizeof (int));
	      }
	    n_prules++;
	  }
	else if (strcmp (op, "read") == 0)
	  {
	    long s = tokint ();
	    int strict = (int) tokint ();
	    gobj_t g = slot_of (s);
	    long a0 = vf_requests;
	    int f0 = vf_fault_fired, rc;
	    if (g == NULL)
	      {
		fprintf (out, "{\"op\":\"read\",\"slot\":%ld,\"skipped\":1}\n", s);
		pending_clear ();
		continue;
	      }
	    hooks_reset ();
	    i_pterm = i_prule = 0;
	    rc = G_READ (g, strict, cb_read_terminal, cb_read_rule);
	    fprintf (out, "{\"op\":\"read\",\"slot\":%ld,\"rc\":%d,\"nt\":%d,\"nr\":%d", s, rc, i_pterm, i_prule);
	    pending_clear ();
	    print_err (g);
	    print_alloc (a0, f0);
	    hooks_print ();
	    fprintf (out, "}\n");
	  }
	else if (strcmp (op, "desc") == 0)
	  {
	    long s = tokint ();
	    int strict = (int) tokint ();
	    char *text = tokstr ();
	    gobj_t g = slot_of (s);
	    long a0 = vf_requests;
	    int f0 = vf_fault_fired, rc;
	    if (text == NULL)
	      die ("NULL description");
	    if (g == NULL)
	      {
		fprintf (out, "{\"op\":\"desc\",\"slot\":%ld,\"skipped\":1}\n", s);
		free (text);
		continue;
	      }
	    hooks_reset ();
	    rc = G_DESC (g, strict, text);
	    memset (text, 0xDD, strlen (text));
	    free (text);
	    fprintf (out, "{\"op\":\"desc\",\"slot\":%ld,\"rc\":%d", s, rc);
	    print_err (g);
	    print_alloc (a0, f0);
	    hooks_print ();
	    fprintf (out, "}\n");
	  }
	else if (strcmp (op, "k") == 0)
	  {
	    char *s;
	    while ((s = tok ()) != NULL)
	      {
		if (n_ptoks >= cap_ptoks)
		  {
		    cap_ptoks = cap_ptoks ? cap_ptoks * 2 : 64;
		    ptoks = (int *) xrealloc (ptoks, cap_ptoks * sizeof (int));
		  }
		ptoks[n_ptoks++] = (int) strtol (s, NULL, 10);
	      }
	  }
	else if (strcmp (op, "krep") == 0)
	  {
	    /* krep <times> <codes...>: append the code list <times> times */
	    long times = tokint (), i;
	    int tmp[256], nt = 0, j;
	    char *s;
	    while ((s = tok ()) != NULL && nt < 256)
	      tmp[nt++] = (int) strtol (s, NULL, 10);
	    for (i = 0; i < times; i++)
	      for (j = 0; j < nt; j++)
		{
		  if (n_ptoks >= cap_ptoks)
		    {
		      cap_ptoks = cap_ptoks ? cap_ptoks * 2 : 64;
		      ptoks = (int *) xrealloc (ptoks, cap_ptoks * sizeof (int));
		    }
		  ptoks[n_ptoks++] = tmp[j];
		}
	  }
	else if (strcmp (op, "kfile") == 0)
	  {
	    /* kfile <path>: token codes, whitespace separated, from a file */
	    char *path = tok ();
	    FILE *tf = path ? fopen (path, "r") : NULL;
	    int c;
	    if (tf == NULL)
	      die ("cannot open token file");
	    while (fscanf (tf, "%d", &c) == 1)
	      {
		if (n_ptoks >= cap_ptoks)
		  {
		    cap_ptoks = cap_ptoks ? cap_ptoks * 2 : 64;
		    ptoks = (int *) xrealloc (ptoks, cap_ptoks * sizeof (int));
		  }
		ptoks[n_ptoks++] = c;
	      }
	    fclose (tf);
	  }
	else if (strcmp (op, "kend") == 0)
	  tok_end_code = (int) tokint ();
	else if (strcmp (op, "parse") == 0)
	  {
	    long s = tokint ();
	    int amode = (int) tokint ();
	    char *dm = tok ();
	    int dmode = dm ? dm[0] : 'f';
	    int warmup = dm && dm[1] == 'w';	/* "nw": a preliminary parse, marked in the transcript */
	    gobj_t g = slot_of (s);
	    struct tree *t;
	    int rc, amb = -12345, i;
	    long a0 = vf_requests, lb0 = vf_live_blocks;
	    int f0 = vf_fault_fired;
	    struct yaep_tree_node *root = (struct yaep_tree_node *) (uintptr_t) 0xDEAD0;
	    if (g == NULL)
	      {
		fprintf (out, "{\"op\":\"parse\",\"slot\":%ld,\"skipped\":1}\n", s);
		n_ptoks = 0;
		continue;
	      }
	    if (n_trees >= cap_trees)
	      {
		cap_trees = cap_trees ? cap_trees * 2 : 8;
		trees = (struct tree *) xrealloc (trees, cap_trees * sizeof *trees);
	      }
	    t = &trees[n_trees];
	    t->ncells = n_ptoks;
	    t->cells = (struct cell *) xmalloc ((n_ptoks ? n_ptoks : 1) * sizeof (struct cell));
	    for (i = 0; i < n_ptoks; i++)
	      t->cells[i].pos = i;
	    t->epoch = ++cur_epoch;
	    t->amode = amode;
	    t->freed = 0;
	    cur_cells = t->cells;
	    cur_ncells = t->ncells;
	    i_ptok = 0;
	    n_errs = 0;
	    n_palloc = n_pfree = 0;
	    hooks_reset ();
	    in_library = 1;
	    rc = G_PARSE (g, cb_read_token, cb_syntax_error,
			  (amode == 1 || amode == 2) ? u_alloc : NULL,
			  (amode == 2 || amode == 3) ? u_free : NULL, &root, &amb);
	    in_library = 0;
	    t->root = (rc == 0 && root != (struct yaep_tree_node *) (uintptr_t) 0xDEAD0) ? root : NULL;
	    fprintf (out, "{\"op\":\"%s\",\"slot\":%ld,\"tid\":%d,\"rc\":%d,\"amb\":%d,\"ntok\":%d,\"read\":%d,\"am\":%d",
		     warmup ? "warmup" : "parse", s, n_trees, rc, amb, n_ptoks, i_ptok, amode);
	    if (root == (struct yaep_tree_node *) (uintptr_t) 0xDEAD0)
	      fprintf (out, ",\"root_untouched\":1");
	    print_err (g);
	    fprintf (out, ",\"err\":[");
	    for (i = 0; i < n_errs; i += 6)
	      fprintf (out, "%s[%ld,%ld,%ld,%ld,%ld,%ld]", i ? "," : "", errs[i], errs[i + 1],
		       errs[i + 2], errs[i + 3], errs[i + 4], errs[i + 5]);
	    fprintf (out, "]");
	    if (rc == 0 && dmode != 'n')
	      dump_tree (t, dmode);
	    else if (rc == 0)
	      fprintf (out, ",\"root\":%d", t->root == NULL ? -1 : 0);
	    fprintf (out, ",\"pa\":%ld,\"pf\":%ld,\"live\":%ld,\"lbd\":%ld", n_palloc, n_pfree,
		     (amode == 1 || amode == 2) ? sh_live_in_epoch (t->epoch) : -1L,
		     vf_live_blocks - lb0);
	    print_bad ();
	    print_alloc (a0, f0);
	    hooks_print ();
	    fprintf (out, "}\n");
	    n_trees++;
	    n_ptoks = 0;
	    tok_end_code = -1;
	  }
	else if (strcmp (op, "walk") == 0)
	  {
	    long ti = tokint ();
	    char *dm = tok ();
	    if (ti < 0 || ti >= n_trees)
	      die ("bad tree index");
	    fprintf (out, "{\"op\":\"walk\",\"tid\":%ld", ti);
	    if (trees[ti].freed)
	      fprintf (out, ",\"skipped\":1");
	    else
	      dump_tree (&trees[ti], dm ? dm[0] : 'f');
	    print_bad ();
	    fprintf (out, "}\n");
	  }
	else if (strcmp (op, "ftree") == 0)
	  {
	    long ti = tokint ();
	    int usecb = (int) tokint ();
	    struct tree *t;
	    long lb0 = vf_live_blocks;
	    if (ti < 0 || ti >= n_trees)
	      die ("bad tree index");
	    t = &trees[ti];
	    if (t->freed || t->amode == 1 || t->amode == 3)
	      {
		/* yaep.h: never free a tree built with parse_alloc but
		   without parse_free */
		fprintf (out, "{\"op\":\"ftree\",\"tid\":%ld,\"skipped\":1}\n", ti);
		continue;
	      }
	    n_pfree = n_termcb = 0;
	    cur_epoch = t->epoch;
	    G_FREE_TREE (t->root, t->amode == 2 ? u_free : NULL, usecb ? u_termcb : NULL);
	    t->freed = 1;
	    fprintf (out, "{\"op\":\"ftree\",\"tid\":%ld,\"null\":%d,\"pf\":%ld,\"tcb\":%ld,\"live\":%ld,\"lbd\":%ld",
		     ti, t->root == NULL, n_pfree, n_termcb,
		     t->amode == 2 ? sh_live_in_epoch (t->epoch) : -1L, vf_live_blocks - lb0);
	    print_bad ();
	    fprintf (out, "}\n");
	  }
	else if (strcmp (op, "free") == 0)
	  {
	    long s = tokint ();
	    gobj_t g = slot_of (s);
	    if (g == NULL)
	      {
		fprintf (out, "{\"op\":\"free\",\"slot\":%ld,\"skipped\":1}\n", s);
		continue;
	      }
	    G_FREE (g);
	    slots[s] = NULL;
	    fprintf (out, "{\"op\":\"free\",\"slot\":%ld,\"lb\":%ld,\"ly\":%ld}\n", s, vf_live_blocks, vf_live_bytes);
	  }
	else if (strcmp (op, "err") == 0)
	  {
	    long s = tokint ();
	    gobj_t g = slot_of (s);
	    if (g == NULL)
	      {
		fprintf (out, "{\"op\":\"err\",\"slot\":%ld,\"skipped\":1}\n", s);
		continue;
	      }
	    fprintf (out, "{\"op\":\"err\",\"slot\":%ld", s);
	    print_err (g);
	    fprintf (out, "}\n");
	  }
	else if (strcmp (op, "failat") == 0)
	  {
	    long k = tokint ();
	    vf_fail_at = k > 0 ? vf_requests + k : 0;
	  }
	else if (strcmp (op, "failfrom") == 0)
	  {
	    long k = tokint ();
	    vf_fail_from = k > 0 ? vf_requests + k : 0;
	  }
	else if (strcmp (op, "h2") == 0)
	  yaep_verif_h2_enabled = (int) tokint ();
	else if (strcmp (op, "stats") == 0)
	  {
	    /* global hash package counters (C only; C++ keeps them in the class) */
	    fprintf (out, "{\"op\":\"stats\"");
	    print_alloc (vf_requests, vf_fault_fired);
	    fprintf (out, "}\n");
	  }
	else
	  die ("unknown op");
	fflush (out);
      }
    if (in_case && !skipping)
      end_case (caseid);
  }
  fprintf (out, "{\"done\":1}\n");
  fclose (out);
  return 0;
}
