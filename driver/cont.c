/* cont.c -- random operation sequences over YAEP's container packages
   (hash table, object stack, variable length object) checked against trivial
   reference models.  One source, compiled against the C implementations and
   (as C++) against the C++ classes through the same macro layer yaep.cpp
   uses.

   usage: drv <seed> <first-seq> <n-seqs> <max-ops> <outfile>
   Output: JSON lines; {"s":i} before every sequence (flushed) so that a
   sanitizer abort is attributed to a sequence; {"viol":...} for each model
   disagreement; a final summary line.  */

#include <stdio.h>
#include <stdlib.h>
#include <string.h>
#include <stdint.h>

#include "allocate.h"
#include "hashtab.h"
#include "objstack.h"
#include "vlobject.h"

#ifdef __cplusplus
typedef os_t *OS_T;
typedef vlo_t *VLO_T;
#undef VLO_CREATE
#undef VLO_DELETE
#define VLO_CREATE( v, allocator, len ) ( v ) = new vlo( allocator, len )
#define VLO_DELETE(vlo) delete vlo
#define VLO_LENGTH(vlo) (vlo)->length ()
#define VLO_BEGIN(vlo) (vlo)->begin ()
#define VLO_BOUND(vlo) (vlo)->bound ()
#define VLO_ADD_MEMORY(vlo, addr, size) (vlo)->add_memory (addr, size)
#define VLO_ADD_BYTE(vlo, b) (vlo)->add_byte (b)
#define VLO_ADD_STRING(vlo, s) (vlo)->add_string (s)
#define VLO_EXPAND(vlo, size) (vlo)->expand (size)
#define VLO_SHORTEN(vlo, size) (vlo)->shorten (size)
#define VLO_NULLIFY(vlo) (vlo)->nullify ()
#define VLO_TAILOR(vlo) (vlo)->tailor ()
#define OS_CREATE( o, allocator, len ) ( o ) = new os( allocator, len )
#define OS_EMPTY(os) (os)->empty ()
#define OS_DELETE(os) delete os
#define OS_TOP_BEGIN(os) (os)->top_begin ()
#define OS_TOP_LENGTH(os) (os)->top_length ()
#define OS_TOP_ADD_MEMORY(os, addr, size) (os)->top_add_memory (addr, size)
#define OS_TOP_ADD_STRING(os, str) (os)->top_add_string (str)
#define OS_TOP_ADD_BYTE(os, b) (os)->top_add_byte (b)
#define OS_TOP_FINISH(os) (os)->top_finish ()
#define OS_TOP_EXPAND(os, size) (os)->top_expand (size)
#define OS_TOP_SHORTEN(os, size) (os)->top_shorten (size)
#define OS_TOP_NULLIFY(os) (os)->top_nullify ()
#define HT_CREATE(a, size, h, e) new hash_table (a, size, h, e)
#define HT_EMPTY(t) (t)->empty ()
#define HT_DELETE(t) delete t
#define HT_FIND(t, el, r) (t)->find_entry (el, r)
#define HT_REMOVE(t, el) (t)->remove_element_from_entry (el)
#define HT_COUNT(t) (t)->elements_number ()
#define HT_SIZE(t) (t)->size ()
#define IMPL "c++"
#else
typedef os_t OS_T;
typedef vlo_t VLO_T;
#define HT_CREATE(a, size, h, e) create_hash_table (a, size, h, e)
#define HT_EMPTY(t) empty_hash_table (t)
#define HT_DELETE(t) delete_hash_table (t)
#define HT_FIND(t, el, r) find_hash_table_entry (t, el, r)
#define HT_REMOVE(t, el) remove_element_from_hash_table_entry (t, el)
#define HT_COUNT(t) hash_table_elements_number (t)
#define HT_SIZE(t) hash_table_size (t)
#define IMPL "c"
#endif

static FILE *out;
static YaepAllocator *alloc;
static uint64_t rng;
static long n_viol;
static long cur_seq, cur_op;
static const char *cur_kind;

static uint32_t
rnd (void)
{
  rng ^= rng << 13;
  rng ^= rng >> 7;
  rng ^= rng << 17;
  return (uint32_t) (rng >> 11);
}

static uint32_t
rndn (uint32_t n)
{
  return n ? rnd () % n : 0;
}

static void
viol (const char *what, long a, long b)
{
  n_viol++;
  fprintf (out, "{\"viol\":\"%s\",\"kind\":\"%s\",\"seq\":%ld,\"op\":%ld,\"a\":%ld,\"b\":%ld}\n", what,
	   cur_kind, cur_seq, cur_op, a, b);
  fflush (out);
}

static const size_t sizes[] = { 0, 1, 2, 3, 7, 8, 9, 15, 16, 17, 31, 33, 64, 100, 255, 256, 257, 511, 512,
  513, 1000, 1024, 3000, 5000
};

static size_t
rnd_size (void)
{
  if (rndn (4) == 0)
    return rndn (40);
  return sizes[rndn (sizeof sizes / sizeof sizes[0])];
}

/* ------------------------------------------------------------ hash table */

struct el
{
  int key;
};
static unsigned hash_mod;
static long n_hash_calls;

static unsigned
el_hash (hash_table_entry_t e)
{
  n_hash_calls++;
  return ((unsigned) ((const struct el *) e)->key % hash_mod) * 2654435761u;
}

static int
el_eq (hash_table_entry_t a, hash_table_entry_t b)
{
  return ((const struct el *) a)->key == ((const struct el *) b)->key;
}

static long c_expansions, c_removals, c_reinserts, c_hash_ops;

static int
hash_seq (int max_ops)
{
  enum { K = 700 };
  static struct el els[K];
  static char present[K], was_removed[K];
  int i, n_ops = 1 + (int) rndn ((uint32_t) max_ops), count = 0, nontriv_exp = 0, nontriv_rem = 0;
  int nkeys = 1 + (int) rndn (K);
  hash_table_t t;
  size_t size0;
  static const unsigned mods[] = { 1, 2, 3, 7, 16, 97, 1000003 };
  struct el probe;

  hash_mod = mods[rndn (7)];
  for (i = 0; i < K; i++)
    {
      els[i].key = i;
      present[i] = was_removed[i] = 0;
    }
  t = HT_CREATE (alloc, rndn (3) == 0 ? rndn (50) : rndn (5), el_hash, el_eq);
  size0 = HT_SIZE (t);
  for (cur_op = 0; cur_op < n_ops; cur_op++)
    {
      int k = (int) rndn ((uint32_t) nkeys);
      int what = (int) rndn (100);
      hash_table_entry_t *e;
      c_hash_ops++;
      probe.key = k;
      if (what < 45)
	{
	  /* insert */
	  e = HT_FIND (t, &probe, 1);
	  if (present[k])
	    {
	      if (*e != (hash_table_entry_t) & els[k])
		viol ("insert_found_wrong", k, (long) (intptr_t) * e);
	    }
	  else
	    {
	      if (*e != NULL)
		viol ("reserved_slot_not_null", k, (long) (intptr_t) * e);
	      *e = (hash_table_entry_t) & els[k];
	      present[k] = 1;
	      count++;
	      if (was_removed[k])
		c_reinserts++;
	    }
	}
      else if (what < 75)
	{
	  e = HT_FIND (t, &probe, 0);
	  if (present[k] ? *e != (hash_table_entry_t) & els[k] : *e != NULL)
	    viol ("find_disagrees", k, present[k]);
	}
      else if (what < 97)
	{
	  if (present[k])
	    {
	      HT_REMOVE (t, &probe);
	      present[k] = 0;
	      was_removed[k] = 1;
	      count--;
	      c_removals++;
	      nontriv_rem = 1;
	    }
	}
      else if (what < 98)
	{
	  HT_EMPTY (t);
	  memset (present, 0, sizeof present);
	  count = 0;
	}
      if ((size_t) count != HT_COUNT (t))
	viol ("elements_number", count, (long) HT_COUNT (t));
      if (HT_SIZE (t) != size0)
	{
	  size0 = HT_SIZE (t);
	  c_expansions++;
	  nontriv_exp = 1;
	}
    }
  /* final sweep: every key */
  for (i = 0; i < nkeys; i++)
    {
      hash_table_entry_t *e;
      probe.key = i;
      e = HT_FIND (t, &probe, 0);
      if (present[i] ? *e != (hash_table_entry_t) & els[i] : *e != NULL)
	viol ("final_find_disagrees", i, present[i]);
    }
  HT_DELETE (t);
  return nontriv_exp && nontriv_rem;
}

/* ---------------------------------------------------------- object stack */

struct fin
{
  char *addr;
  size_t len;
  unsigned char *copy;
};
static long c_os_moves, c_os_finished, c_os_ops;

static int
os_seq (int max_ops)
{
  OS_T st;
  int n_ops = 1 + (int) rndn ((uint32_t) max_ops), nontriv = 0;
  struct fin *fins = NULL;
  int n_fins = 0, cap_fins = 0, i;
  unsigned char *model = NULL;
  size_t mlen = 0, mcap = 0;
  unsigned char buf[5000];
  size_t init = rndn (3) == 0 ? 0 : (rndn (2) ? rndn (64) : rndn (2000));

  OS_CREATE (st, alloc, init);
  for (cur_op = 0; cur_op < n_ops; cur_op++)
    {
      int what = (int) rndn (100);
      size_t n = rnd_size (), j;
      char *before = (char *) OS_TOP_BEGIN (st);
      c_os_ops++;
      if (mlen + n + 2 > mcap)
	{
	  mcap = (mlen + n + 2) * 2;
	  model = (unsigned char *) realloc (model, mcap);
	}
      if (what < 30)
	{
	  for (j = 0; j < n; j++)
	    buf[j] = (unsigned char) rnd ();
	  OS_TOP_ADD_MEMORY (st, buf, n);
	  memcpy (model + mlen, buf, n);
	  mlen += n;
	}
      else if (what < 40)
	{
	  int b = (int) rndn (256);
	  OS_TOP_ADD_BYTE (st, b);
	  model[mlen++] = (unsigned char) b;
	}
      else if (what < 52)
	{
	  OS_TOP_EXPAND (st, n);
	  for (j = 0; j < n; j++)
	    {
	      unsigned char b = (unsigned char) rnd ();
	      ((unsigned char *) OS_TOP_BEGIN (st))[mlen + j] = b;
	      model[mlen + j] = b;
	    }
	  mlen += n;
	}
      else if (what < 60)
	{
	  size_t k = mlen ? rndn ((uint32_t) mlen + 1) : 0;
	  OS_TOP_SHORTEN (st, k);
	  mlen -= k;
	}
      else if (what < 68)
	{
	  size_t l = n > 300 ? 300 : n;
	  for (j = 0; j < l; j++)
	    buf[j] = (unsigned char) (1 + rndn (255));
	  buf[l] = 0;
	  OS_TOP_ADD_STRING (st, (char *) buf);
	  if (mlen > 0)
	    mlen--;
	  memcpy (model + mlen, buf, l + 1);
	  mlen += l + 1;
	}
      else if (what < 92)
	{
	  /* finish: the object must never move or change again */
	  if (n_fins >= cap_fins)
	    {
	      cap_fins = cap_fins ? cap_fins * 2 : 16;
	      fins = (struct fin *) realloc (fins, cap_fins * sizeof *fins);
	    }
	  fins[n_fins].addr = (char *) OS_TOP_BEGIN (st);
	  fins[n_fins].len = mlen;
	  fins[n_fins].copy = (unsigned char *) malloc (mlen ? mlen : 1);
	  memcpy (fins[n_fins].copy, model, mlen);
	  n_fins++;
	  c_os_finished++;
	  OS_TOP_FINISH (st);
	  mlen = 0;
	  before = (char *) OS_TOP_BEGIN (st);
	  if (((uintptr_t) before & (sizeof (double) - 1)) != 0)
	    viol ("top_not_aligned", (long) ((uintptr_t) before & 15), 0);
	}
      else if (what < 97)
	{
	  OS_TOP_NULLIFY (st);
	  mlen = 0;
	}
      else
	{
	  /* check, then empty: all finished objects die */
	  for (i = 0; i < n_fins; i++)
	    {
	      if (memcmp (fins[i].addr, fins[i].copy, fins[i].len) != 0)
		viol ("finished_object_changed", i, (long) fins[i].len);
	      free (fins[i].copy);
	    }
	  n_fins = 0;
	  OS_EMPTY (st);
	  mlen = 0;
	  before = (char *) OS_TOP_BEGIN (st);
	}
      if ((char *) OS_TOP_BEGIN (st) != before)
	{
	  c_os_moves++;
	  nontriv = 1;
	}
      if (OS_TOP_LENGTH (st) != mlen)
	viol ("top_length", (long) mlen, (long) OS_TOP_LENGTH (st));
      else if (mlen && memcmp (OS_TOP_BEGIN (st), model, mlen) != 0)
	viol ("top_bytes", (long) mlen, what);
      /* a finished object must not overlap the top object */
      if (n_fins && rndn (8) == 0)
	{
	  i = (int) rndn ((uint32_t) n_fins);
	  if (memcmp (fins[i].addr, fins[i].copy, fins[i].len) != 0)
	    viol ("finished_object_changed", i, (long) fins[i].len);
	  if (fins[i].len && fins[i].addr < (char *) OS_TOP_BEGIN (st) + mlen
	      && (char *) OS_TOP_BEGIN (st) < fins[i].addr + fins[i].len)
	    viol ("finished_overlaps_top", i, 0);
	}
    }
  for (i = 0; i < n_fins; i++)
    {
      if (memcmp (fins[i].addr, fins[i].copy, fins[i].len) != 0)
	viol ("finished_object_changed_at_end", i, (long) fins[i].len);
      free (fins[i].copy);
    }
  OS_DELETE (st);
  free (fins);
  free (model);
  return nontriv;
}

/* ------------------------------------------------------------------ VLO */

static long c_vlo_moves, c_vlo_ops;

static int
vlo_seq (int max_ops)
{
  VLO_T v;
  int n_ops = 1 + (int) rndn ((uint32_t) max_ops), nontriv = 0;
  unsigned char *model = NULL;
  size_t mlen = 0, mcap = 0;
  unsigned char buf[5000];
  size_t init = rndn (3) == 0 ? 0 : (rndn (2) ? 1 + rndn (16) : rndn (3000));

  VLO_CREATE (v, alloc, init);
  for (cur_op = 0; cur_op < n_ops; cur_op++)
    {
      int what = (int) rndn (100);
      size_t n = rnd_size (), j;
      char *before = (char *) VLO_BEGIN (v);
      c_vlo_ops++;
      if (mlen + n + 2 > mcap)
	{
	  mcap = (mlen + n + 2) * 2;
	  model = (unsigned char *) realloc (model, mcap);
	}
      if (what < 35)
	{
	  for (j = 0; j < n; j++)
	    buf[j] = (unsigned char) rnd ();
	  VLO_ADD_MEMORY (v, buf, n);
	  memcpy (model + mlen, buf, n);
	  mlen += n;
	}
      else if (what < 45)
	{
	  int b = (int) rndn (256);
	  VLO_ADD_BYTE (v, b);
	  model[mlen++] = (unsigned char) b;
	}
      else if (what < 60)
	{
	  VLO_EXPAND (v, n);
	  for (j = 0; j < n; j++)
	    {
	      unsigned char b = (unsigned char) rnd ();
	      ((unsigned char *) VLO_BEGIN (v))[mlen + j] = b;
	      model[mlen + j] = b;
	    }
	  mlen += n;
	}
      else if (what < 72)
	{
	  size_t k = mlen ? rndn ((uint32_t) mlen + 1) : 0;
	  VLO_SHORTEN (v, k);
	  mlen -= k;
	}
      else if (what < 82)
	{
	  size_t l = n > 300 ? 300 : n;
	  for (j = 0; j < l; j++)
	    buf[j] = (unsigned char) (1 + rndn (255));
	  buf[l] = 0;
	  VLO_ADD_STRING (v, (char *) buf);
	  if (mlen > 0)
	    mlen--;
	  memcpy (model + mlen, buf, l + 1);
	  mlen += l + 1;
	}
      else if (what < 88)
	{
	  VLO_NULLIFY (v);
	  mlen = 0;
	}
      else
	VLO_TAILOR (v);
      if ((char *) VLO_BEGIN (v) != before)
	{
	  c_vlo_moves++;
	  nontriv = 1;
	}
      if (VLO_LENGTH (v) != mlen)
	viol ("vlo_length", (long) mlen, (long) VLO_LENGTH (v));
      else if (mlen && memcmp (VLO_BEGIN (v), model, mlen) != 0)
	viol ("vlo_bytes", (long) mlen, what);
      if ((char *) VLO_BOUND (v) != (char *) VLO_BEGIN (v) + mlen)
	viol ("vlo_bound", (long) mlen, 0);
    }
  VLO_DELETE (v);
  free (model);
  return nontriv;
}

int
main (int argc, char **argv)
{
  uint64_t seed;
  long first, n, i, nontriv[3] = { 0, 0, 0 };
  int max_ops;

  if (argc < 6)
    {
      fprintf (stderr, "usage: drv seed first-seq n-seqs max-ops outfile\n");
      return 2;
    }
  seed = strtoull (argv[1], NULL, 10);
  first = atol (argv[2]);
  n = atol (argv[3]);
  max_ops = atoi (argv[4]);
  out = fopen (argv[5], "a");
  if (out == NULL)
    return 2;
  alloc = yaep_alloc_new (NULL, NULL, NULL, NULL);
  for (i = first; i < first + n; i++)
    {
      int kind = (int) (i % 3);
      cur_seq = i;
      /* every sequence has its own generator state: replayable alone */
      rng = (seed + 1) * 0x9E3779B97F4A7C15ULL ^ ((uint64_t) i * 0xD1B54A32D192ED03ULL);
      if (rng == 0)
	rng = 88172645463325252ULL;
      rnd ();
      rnd ();
      cur_kind = kind == 0 ? "hash" : kind == 1 ? "os" : "vlo";
      fprintf (out, "{\"s\":%ld}\n", i);
      fflush (out);
      if (kind == 0)
	nontriv[0] += hash_seq (max_ops);
      else if (kind == 1)
	nontriv[1] += os_seq (max_ops);
      else
	nontriv[2] += vlo_seq (max_ops);
    }
  yaep_alloc_del (alloc);
  fprintf (out,
	   "{\"done\":1,\"impl\":\"%s\",\"seqs\":%ld,\"viol\":%ld,\"nontrivial\":[%ld,%ld,%ld],"
	   "\"hash_ops\":%ld,\"expansions\":%ld,\"removals\":%ld,\"reinserts\":%ld,"
	   "\"os_ops\":%ld,\"os_moves\":%ld,\"os_finished\":%ld,\"vlo_ops\":%ld,\"vlo_moves\":%ld}\n",
	   IMPL, n, n_viol, nontriv[0], nontriv[1], nontriv[2], c_hash_ops, c_expansions, c_removals,
	   c_reinserts, c_os_ops, c_os_moves, c_os_finished, c_vlo_ops, c_vlo_moves);
  fclose (out);
  return 0;
}
